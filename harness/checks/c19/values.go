package c19

import (
	"fmt"
	"math"
	"math/rand"
	"strings"

	openfgav1 "github.com/openfga/api/proto/openfga/v1"
	"google.golang.org/protobuf/types/known/structpb"
)

// ---- hostile condition contexts (all built iteratively: the harness itself must not recurse) ----

func sv(s string) *structpb.Value  { return structpb.NewStringValue(s) }
func nv(f float64) *structpb.Value { return structpb.NewNumberValue(f) }

// deepList nests leaf in depth lists: [[[...leaf...]]].
func deepList(depth int, leaf *structpb.Value) *structpb.Value {
	v := leaf
	for i := 0; i < depth; i++ {
		v = structpb.NewListValue(&structpb.ListValue{Values: []*structpb.Value{v}})
	}
	return v
}

// deepStruct nests leaf in depth structs: {"k":{"k":...leaf...}}.
func deepStruct(depth int, key string, leaf *structpb.Value) *structpb.Value {
	v := leaf
	for i := 0; i < depth; i++ {
		v = structpb.NewStructValue(&structpb.Struct{Fields: map[string]*structpb.Value{key: v}})
	}
	return v
}

// deepMixed alternates lists and structs, with a sibling at every level.
func deepMixed(depth int, leaf *structpb.Value) *structpb.Value {
	v := leaf
	for i := 0; i < depth; i++ {
		if i%2 == 0 {
			v = structpb.NewListValue(&structpb.ListValue{Values: []*structpb.Value{nv(float64(i)), v}})
		} else {
			v = structpb.NewStructValue(&structpb.Struct{Fields: map[string]*structpb.Value{"a": v, "b": sv("x")}})
		}
	}
	return v
}

func wideStruct(n int) *structpb.Value {
	f := make(map[string]*structpb.Value, n)
	for i := 0; i < n; i++ {
		f[fmt.Sprintf("k%05d", i)] = nv(float64(i))
	}
	return structpb.NewStructValue(&structpb.Struct{Fields: f})
}

func wideList(n int, el func(i int) *structpb.Value) *structpb.Value {
	vs := make([]*structpb.Value, n)
	for i := range vs {
		vs[i] = el(i)
	}
	return structpb.NewListValue(&structpb.ListValue{Values: vs})
}

// randomTree builds a random value tree with about n nodes (iteratively, breadth first).
func randomTree(r *rand.Rand, n int) *structpb.Value {
	root := &structpb.Value{}
	queue := []*structpb.Value{root}
	made := 0
	for len(queue) > 0 {
		v := queue[0]
		queue = queue[1:]
		made++
		k := r.Intn(8)
		if made+len(queue) >= n && k < 2 {
			k = 2 + r.Intn(6)
		}
		switch k {
		case 0:
			w := 1 + r.Intn(4)
			l := &structpb.ListValue{}
			for i := 0; i < w; i++ {
				c := &structpb.Value{}
				l.Values = append(l.Values, c)
				queue = append(queue, c)
			}
			v.Kind = &structpb.Value_ListValue{ListValue: l}
		case 1:
			w := 1 + r.Intn(4)
			s := &structpb.Struct{Fields: map[string]*structpb.Value{}}
			for i := 0; i < w; i++ {
				c := &structpb.Value{}
				s.Fields[fmt.Sprintf("f%d", i)] = c
				queue = append(queue, c)
			}
			v.Kind = &structpb.Value_StructValue{StructValue: s}
		case 2:
			v.Kind = &structpb.Value_NullValue{}
		case 3:
			v.Kind = &structpb.Value_BoolValue{BoolValue: r.Intn(2) == 0}
		case 4, 5:
			v.Kind = &structpb.Value_NumberValue{NumberValue: hugeNumbers[r.Intn(len(hugeNumbers))]}
		default:
			v.Kind = &structpb.Value_StringValue{StringValue: specials[r.Intn(len(specials))]}
		}
	}
	return root
}

var hugeNumbers = []float64{0, -0.0, 1, -1, 5, 1.5, 1e308, -1e308, math.MaxFloat64, math.SmallestNonzeroFloat64, 9223372036854775807, 9223372036854775808, -9223372036854775808,
	18446744073709551615, 18446744073709551616, 9007199254740993, 4294967296, 2147483648, 1e19, 1e30, 0.1 + 0.2}

// ctxKinds are the structural classes of hostile request contexts. Depths reach 10^4 lists, i.e. twice
// the nesting a protobuf decoder accepts (2 messages per level; limit 10 000): the deeper half is
// tagged "nowire" by the child.
var ctxKinds = []string{
	"ctx-list-depth-10", "ctx-list-depth-100", "ctx-list-depth-1000", "ctx-list-depth-4900", "ctx-list-depth-10000",
	"ctx-struct-depth-10", "ctx-struct-depth-100", "ctx-struct-depth-1000", "ctx-struct-depth-3000", "ctx-struct-depth-4900", "ctx-struct-depth-10000",
	"ctx-mixed-depth-3000", "ctx-wide-100", "ctx-wide-10000", "ctx-widelist-10000", "ctx-bigstr", "ctx-hugenum", "ctx-nan", "ctx-inf",
	"ctx-nil-value", "ctx-empty-kind", "ctx-hostile-keys", "ctx-mistyped", "ctx-tree-2000", "ctx-empty", "ctx-many-params",
}

// hostileCtx builds a context of the given class. params are the condition parameter names worth
// aiming at (the hostile value is put under one of them as well as under an unknown key).
func hostileCtx(r *rand.Rand, kind string, params []string) *structpb.Struct {
	if len(params) == 0 {
		params = []string{"x", "s", "b"}
	}
	p := params[r.Intn(len(params))]
	var v *structpb.Value
	var depth int
	switch {
	case strings.HasPrefix(kind, "ctx-list-depth-"):
		fmt.Sscanf(kind, "ctx-list-depth-%d", &depth)
		v = deepList(depth, nv(7))
	case strings.HasPrefix(kind, "ctx-struct-depth-"):
		fmt.Sscanf(kind, "ctx-struct-depth-%d", &depth)
		v = deepStruct(depth, "k", sv("ok"))
	case kind == "ctx-mixed-depth-3000":
		v = deepMixed(3000, nv(1))
	case kind == "ctx-wide-100":
		v = wideStruct(100)
	case kind == "ctx-wide-10000":
		v = wideStruct(10000)
	case kind == "ctx-widelist-10000":
		v = wideList(10000, func(i int) *structpb.Value { return sv("e") })
	case kind == "ctx-bigstr":
		v = sv(strings.Repeat("a", []int{10_000, 100_000, 400_000}[r.Intn(3)]) + "!")
	case kind == "ctx-hugenum":
		v = nv(hugeNumbers[r.Intn(len(hugeNumbers))])
	case kind == "ctx-nan":
		v = nv(math.NaN())
	case kind == "ctx-inf":
		v = nv(math.Inf(1 - 2*r.Intn(2)))
	case kind == "ctx-nil-value":
		return &structpb.Struct{Fields: map[string]*structpb.Value{p: nil, "zz": nil}}
	case kind == "ctx-empty-kind":
		return &structpb.Struct{Fields: map[string]*structpb.Value{p: {}, "zz": structpb.NewListValue(&structpb.ListValue{Values: []*structpb.Value{{}, nil}})}}
	case kind == "ctx-hostile-keys":
		f := map[string]*structpb.Value{}
		for _, k := range []string{"", ".", "a.b", "x y", "x\x00", strings.Repeat("k", 10000), "subject_x", "\xff", "𝕏", "x#", "*"} {
			if r.Intn(3) != 0 {
				f[k] = nv(3)
			}
		}
		return &structpb.Struct{Fields: f}
	case kind == "ctx-mistyped":
		f := map[string]*structpb.Value{}
		alts := []*structpb.Value{sv("7"), nv(7), structpb.NewBoolValue(true), structpb.NewNullValue(), deepList(2, sv("x")), wideStruct(3)}
		for _, k := range params {
			f[k] = alts[r.Intn(len(alts))]
		}
		return &structpb.Struct{Fields: f}
	case kind == "ctx-tree-2000":
		v = randomTree(r, 2000)
	case kind == "ctx-empty":
		return &structpb.Struct{}
	case kind == "ctx-many-params":
		f := map[string]*structpb.Value{}
		for i := 0; i < 3000; i++ {
			f[fmt.Sprintf("p%d", i)] = sv("v")
		}
		for _, k := range params {
			f[k] = nv(7)
		}
		return &structpb.Struct{Fields: f}
	default:
		v = nv(1)
	}
	f := map[string]*structpb.Value{p: v}
	if r.Intn(2) == 0 {
		f["unknown_param"] = v
	}
	if r.Intn(2) == 0 {
		for _, k := range params {
			if _, ok := f[k]; !ok {
				f[k] = []*structpb.Value{nv(7), sv("ok"), structpb.NewBoolValue(true)}[r.Intn(3)]
			}
		}
	}
	return &structpb.Struct{Fields: f}
}

// typedHostile returns hostile values aimed at a condition parameter of the given declared type.
// Alternatives are built lazily: only the chosen one is constructed.
func typedHostile(r *rand.Rand, typ string) *structpb.Value {
	type lazy = func() *structpb.Value
	S := func(s string) lazy { return func() *structpb.Value { return sv(s) } }
	N := func(f float64) lazy { return func() *structpb.Value { return nv(f) } }
	rep := func(s string, n int) lazy { return func() *structpb.Value { return sv(strings.Repeat(s, n)) } }
	pick := func(vs ...lazy) *structpb.Value { return vs[r.Intn(len(vs))]() }
	switch typ {
	case "ipaddress":
		return pick(S(""), S("999.1.1.1"), S("::ffff:1.2.3.4"), S("1.2.3.4/33"), S("10.0.0.1"), rep("1", 10000), N(1), func() *structpb.Value { return deepList(3, sv("10.0.0.1")) }, S("fe80::1%eth0"), S("10.0.0.1\x00"))
	case "timestamp":
		return pick(S("2024-13-45T99:99:99Z"), S("0000-01-01T00:00:00Z"), S("9999-12-31T23:59:59.999999999Z"), S("2029-12-31T23:59:59Z"), N(1e30), S(""), rep("2", 10000), S("+292277026596-12-04T15:30:07Z"), S("1970-01-01T00:00:00+99:99"))
	case "duration":
		return pick(S("999999999999h"), S("-9223372036854775808ns"), S("2562047h47m16.854775807s"), S("2562047h47m16.854775808s"), S("1e9h"), rep("1h", 5000), S(""), N(5), S("1h"), S("-0s"))
	case "list":
		return pick(func() *structpb.Value { return wideList(10000, func(i int) *structpb.Value { return sv("a") }) },
			func() *structpb.Value { return wideList(5, func(i int) *structpb.Value { return nv(float64(i)) }) },
			func() *structpb.Value { return deepList(1000, sv("a")) }, func() *structpb.Value { return wideStruct(3) }, S("a"),
			func() *structpb.Value { return wideList(3, func(i int) *structpb.Value { return nil }) }, func() *structpb.Value { return structpb.NewListValue(nil) })
	case "map":
		return pick(func() *structpb.Value { return wideStruct(10000) },
			func() *structpb.Value {
				return structpb.NewStructValue(&structpb.Struct{Fields: map[string]*structpb.Value{"k": sv("notint")}})
			},
			func() *structpb.Value { return deepStruct(1000, "k", nv(5)) }, func() *structpb.Value { return wideList(3, func(i int) *structpb.Value { return nv(1) }) },
			func() *structpb.Value {
				return structpb.NewStructValue(&structpb.Struct{Fields: map[string]*structpb.Value{"k": nv(4.5)}})
			},
			func() *structpb.Value { return structpb.NewStructValue(nil) })
	case "any":
		return pick(func() *structpb.Value { return deepList(4900, nv(1)) }, func() *structpb.Value { return deepStruct(3000, "k", nv(1)) }, N(1), S("1"),
			func() *structpb.Value { return structpb.NewNullValue() }, func() *structpb.Value { return wideStruct(5000) }, N(math.NaN()))
	case "uint":
		return pick(N(-1), N(1.5), N(1e30), S("18446744073709551616"), S("18446744073709551615"), N(math.NaN()), N(2), S("-0"), S("0x10"), S(" 5"))
	case "double":
		return pick(N(math.NaN()), N(math.Inf(1)), S("1e999"), S("NaN"), N(1.5), S("0x1p-2"), N(math.MaxFloat64))
	case "int":
		return pick(N(5), N(9223372036854775807), S("9223372036854775808"), S("-9223372036854775808"), N(1e19), N(-0.0), N(4.5), S("5"), S("+5"), S("5 "))
	case "string":
		return pick(func() *structpb.Value { return sv(strings.Repeat("a", 100000) + "!") }, S("a\xffb"), S(""), N(5), func() *structpb.Value { return sv(strings.Repeat("a", 30) + "!") }, S("\x00"))
	case "bool":
		return pick(S("true"), N(1), func() *structpb.Value { return structpb.NewBoolValue(true) }, func() *structpb.Value { return structpb.NewNullValue() }, S("TRUE"))
	}
	return nv(1)
}

// ---- hostile tuples ----

func tk(o, rel, u string) *openfgav1.TupleKey { return &openfgav1.TupleKey{Object: o, Relation: rel, User: u} }

func tkc(o, rel, u, cond string, ctx *structpb.Struct) *openfgav1.TupleKey {
	return &openfgav1.TupleKey{Object: o, Relation: rel, User: u, Condition: &openfgav1.RelationshipCondition{Name: cond, Context: ctx}}
}

// storedKinds are the classes of tuples written behind the server's back.
var storedKinds = []string{"cycle-userset", "cycle-parent", "userset-on-tupleset", "wildcard-misplaced", "unknown-condition", "unknown-type", "unknown-relation",
	"huge-id", "malformed", "self-userset", "condition-deep-ctx", "long-chain", "wide-fanout", "wrong-condition", "badutf8"}

// hostileStored builds tuples of one class over the vocabulary of a store.
func hostileStored(r *rand.Rand, kind string, st *storeSt) []*openfgav1.TupleKey {
	node := func() (string, string, string) { // type, id, relation
		n := st.nodes[r.Intn(len(st.nodes))]
		ids := st.ids[n[0]]
		return n[0], ids[r.Intn(len(ids))], n[1]
	}
	obj := func(t string) string { ids := st.ids[t]; return t + ":" + ids[r.Intn(len(ids))] }
	var out []*openfgav1.TupleKey
	switch kind {
	case "cycle-userset":
		// a#r@b#r, b#r@a#r (and a three-cycle) on every relation of a type
		t, _, rel := node()
		ids := st.ids[t]
		for i := range ids {
			out = append(out, tk(t+":"+ids[i], rel, t+":"+ids[(i+1)%len(ids)]+"#"+rel))
		}
		out = append(out, tk(t+":"+ids[0], rel, t+":"+ids[0]+"#"+rel))
	case "cycle-parent":
		for _, t := range st.types {
			ids := st.ids[t]
			if !st.hasRel(t, "parent") {
				continue
			}
			for i := range ids {
				out = append(out, tk(t+":"+ids[i], "parent", t+":"+ids[(i+1)%len(ids)]))
			}
			out = append(out, tk(t+":"+ids[0], "parent", t+":"+ids[0]))
		}
	case "userset-on-tupleset":
		for _, t := range st.types {
			if st.hasRel(t, "parent") {
				t2, id2, rel2 := node()
				out = append(out, tk(obj(t), "parent", t2+":"+id2+"#"+rel2), tk(obj(t), "parent", t2+":*"), tk(obj(t), "parent", "user:*"))
			}
		}
	case "wildcard-misplaced":
		for i := 0; i < 6; i++ {
			t, id, rel := node()
			t2, _, rel2 := node()
			out = append(out, tk(t+":"+id, rel, t2+":*"), tk(t+":*", rel, "user:a"), tk(t+":"+id, rel, t2+":*#"+rel2), tk(t+":"+id, "*", "user:a"))
		}
	case "unknown-condition":
		for i := 0; i < 6; i++ {
			t, id, rel := node()
			out = append(out, tkc(t+":"+id, rel, st.users[r.Intn(len(st.users))], "no_such_condition", nil))
		}
	case "wrong-condition":
		for i := 0; i < 6 && len(st.conds) > 0; i++ {
			t, id, rel := node()
			c := st.conds[r.Intn(len(st.conds))]
			out = append(out, tkc(t+":"+id, rel, st.users[r.Intn(len(st.users))], c, hostileCtx(r, ctxKinds[r.Intn(len(ctxKinds))], st.params)))
		}
	case "unknown-type":
		for i := 0; i < 6; i++ {
			t, id, rel := node()
			out = append(out, tk("ghost:1", rel, "user:a"), tk(t+":"+id, rel, "ghost:1"), tk(t+":"+id, rel, "ghost:1#member"), tk(t+":"+id, rel, "ghost:*"))
		}
	case "unknown-relation":
		for i := 0; i < 6; i++ {
			t, id, rel := node()
			out = append(out, tk(t+":"+id, "ghostrel", "user:a"), tk(t+":"+id, rel, t+":"+id+"#ghostrel"))
		}
	case "huge-id":
		t, id, rel := node()
		big := strings.Repeat("z", hugeLen(r))
		out = append(out, tk(t+":"+big, rel, "user:a"), tk(t+":"+id, rel, "user:"+big), tk(t+":"+id, rel, t+":"+big+"#"+rel), tk(t+":"+id, big, "user:a"))
	case "malformed":
		t, id, rel := node()
		for _, s := range []string{"nocolon", "a:b:c", "", ":", "#", t + ":#" + rel, "x:y#", ":" + id, t + ":", t + ":" + id + "#", "user:a#b#c", " ", "user: a", t + ":" + id + "@x"} {
			out = append(out, tk(t+":"+id, rel, s), tk(s, rel, "user:a"))
		}
		out = append(out, tk(t+":"+id, "", "user:a"), tk(t+":"+id, rel+"#"+rel, "user:a"), tk(t+":"+id, rel+":x", "user:a"))
	case "self-userset":
		for i := 0; i < 5; i++ {
			t, id, rel := node()
			out = append(out, tk(t+":"+id, rel, t+":"+id+"#"+rel))
		}
	case "condition-deep-ctx":
		for i := 0; i < 4 && len(st.conds) > 0; i++ {
			t, id, rel := node()
			c := st.conds[r.Intn(len(st.conds))]
			k := []string{"ctx-list-depth-4900", "ctx-struct-depth-4900", "ctx-wide-10000", "ctx-bigstr", "ctx-nan", "ctx-tree-2000"}[r.Intn(6)]
			out = append(out, tkc(t+":"+id, rel, st.users[r.Intn(len(st.users))], c, hostileCtx(r, k, st.params)))
		}
	case "long-chain":
		// a userset chain far longer than the resolution depth limit, closed into a cycle
		t, _, rel := node()
		n := 60
		for i := 0; i < n; i++ {
			out = append(out, tk(fmt.Sprintf("%s:c%d", t, i), rel, fmt.Sprintf("%s:c%d#%s", t, (i+1)%n, rel)))
		}
		if st.hasRel(t, "parent") {
			for i := 0; i < n; i++ {
				out = append(out, tk(fmt.Sprintf("%s:c%d", t, i), "parent", fmt.Sprintf("%s:c%d", t, (i+1)%n)))
			}
		}
	case "wide-fanout":
		t, id, rel := node()
		t2, _, rel2 := node()
		for i := 0; i < 300; i++ {
			out = append(out, tk(t+":"+id, rel, fmt.Sprintf("%s:w%d#%s", t2, i, rel2)), tk(fmt.Sprintf("%s:w%d", t2, i), rel2, fmt.Sprintf("%s:w%d#%s", t2, (i*7+1)%300, rel2)))
		}
	case "badutf8":
		t, id, rel := node()
		out = append(out, tk(t+":\xff\xfe", rel, "user:a"), tk(t+":"+id, rel, "user:\x80"), tk(t+":"+id, rel, "user:a\x00b"))
	}
	return out
}
