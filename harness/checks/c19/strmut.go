package c19

import (
	"math/rand"
	"sort"
	"strings"

	"google.golang.org/protobuf/proto"
	"google.golang.org/protobuf/reflect/protoreflect"
)

// ---- hostile strings ----

var separators = []string{":", "#", "@", "|", "*", ",", " ", "\t", "\n"}

var specials = []string{
	"*", "user:*", ":*", "*:*", "#", ":", "::", "a:b:c", "a#b#c", "a:b#c@d", " : ", "user:*#member", "user:a#", "user:#member",
	"#member", ":a", "user:", "type:id#rel#rel", "user:a@b", "doc:1#viewer@user:a", "this", "self", "..", "/", "\\", "\"", "'",
	"'; DROP TABLE tuple;--", "{\"$ne\":1}", "${jndi:ldap://x}", "%s%d%n%!(EXTRA string=x)", "\r\n", "\x1b[31mred", "null", "true", "0", "-1",
	"NaN", "\u202euser:a", "\ufeffuser:a", "ｕｓｅｒ:a", "user\u200b:a", "user:á", "𝕦𝕤𝕖𝕣:𝕒", "user:😀", "ɢroup:1", "\u0000",
}

// strKinds are the byte-level string mutation classes.
var strKinds = []string{"sep", "nul", "badutf8", "huge", "empty", "unicode", "special", "dup", "trunc", "swap", "ctrl", "long-sep"}

func insertAt(s string, pos int, ins string) string {
	if pos < 0 {
		pos = 0
	}
	if pos > len(s) {
		pos = len(s)
	}
	return s[:pos] + ins + s[pos:]
}

// hugeLen draws a length in [1e4, 1e5].
func hugeLen(r *rand.Rand) int {
	return []int{10_000, 20_000, 50_000, 100_000}[r.Intn(4)] + r.Intn(7)
}

// mutateString applies one mutation of the given kind; other is some other string of the same request.
func mutateString(r *rand.Rand, kind, s, other string) string {
	switch kind {
	case "sep":
		n := 1 + r.Intn(3)
		for i := 0; i < n; i++ {
			s = insertAt(s, r.Intn(len(s)+1), separators[r.Intn(len(separators))])
		}
		return s
	case "long-sep":
		sep := separators[r.Intn(6)]
		return s + strings.Repeat(sep, 1+r.Intn(2000))
	case "nul":
		return insertAt(s, r.Intn(len(s)+1), "\x00")
	case "badutf8":
		n := 1 + r.Intn(3)
		for i := 0; i < n; i++ {
			s = insertAt(s, r.Intn(len(s)+1), string([]byte{byte(0x80 + r.Intn(0x80))}))
		}
		return s
	case "huge":
		// keep a valid-looking head ("type:") so that parsing goes as far as possible
		head := s
		if i := strings.IndexAny(s, ":#"); i >= 0 && r.Intn(3) != 0 {
			head = s[:i+1]
		} else if r.Intn(2) == 0 {
			head = ""
		}
		fill := []string{"a", "x", "9", "_", "-", "é"}[r.Intn(6)]
		return head + strings.Repeat(fill, hugeLen(r)/len(fill))
	case "empty":
		return ""
	case "unicode":
		u := []string{"\u202e", "\ufeff", "\u200b", "́", "😀", "𝕏", "ｕ", " ", "\U0010FFFF", "\u00a0"}[r.Intn(10)]
		return insertAt(s, r.Intn(len(s)+1), u)
	case "special":
		return specials[r.Intn(len(specials))]
	case "dup":
		return s + s
	case "trunc":
		if len(s) == 0 {
			return " "
		}
		return s[:r.Intn(len(s))]
	case "swap":
		return other
	case "ctrl":
		c := []string{"\r\n", "\x1b[2J", "\x7f", "\x01", "\x08", "\x0c"}[r.Intn(6)]
		return insertAt(s, r.Intn(len(s)+1), c)
	}
	return s
}

// ---- generic walk over the string fields of a request ----

type strSlot struct {
	path string
	get  func() string
	set  func(string)
}

const maxSlots = 400

// collectStrings gathers the string fields of m that are set (and the unset top-level ones), including
// repeated strings, map keys and nested messages. google.protobuf.Struct payloads are entered too
// (their keys and string values are condition context), but collection stops after maxSlots slots.
func collectStrings(m protoreflect.Message, path string, depth int, top bool, out *[]strSlot) {
	if depth > 40 || len(*out) >= maxSlots || !m.IsValid() {
		return
	}
	fds := m.Descriptor().Fields()
	for i := 0; i < fds.Len(); i++ {
		fd := fds.Get(i)
		if len(*out) >= maxSlots {
			return
		}
		name := string(fd.Name())
		p := name
		if path != "" {
			p = path + "." + name
		}
		switch {
		case fd.IsMap():
			if !m.Has(fd) {
				continue
			}
			mp := m.Mutable(fd).Map()
			var keys []protoreflect.MapKey
			mp.Range(func(k protoreflect.MapKey, _ protoreflect.Value) bool {
				keys = append(keys, k)
				return true
			})
			// deterministic order, bounded number of entries
			sortMapKeys(keys)
			if len(keys) > 64 {
				keys = keys[:64]
			}
			for _, k := range keys {
				k := k
				if fd.MapKey().Kind() == protoreflect.StringKind {
					*out = append(*out, strSlot{path: p + ".<key>", get: func() string { return k.String() }, set: func(s string) {
						if !mp.Has(k) {
							return
						}
						v := mp.Get(k)
						mp.Clear(k)
						mp.Set(protoreflect.ValueOfString(s).MapKey(), v)
					}})
				}
				switch fd.MapValue().Kind() {
				case protoreflect.StringKind:
					*out = append(*out, strSlot{path: p + ".<value>", get: func() string { return mp.Get(k).String() }, set: func(s string) {
						if mp.Has(k) {
							mp.Set(k, protoreflect.ValueOfString(s))
						}
					}})
				case protoreflect.MessageKind:
					collectStrings(mp.Get(k).Message(), p+".<value>", depth+1, false, out)
				}
			}
		case fd.IsList():
			if !m.Has(fd) {
				continue
			}
			l := m.Mutable(fd).List()
			n := l.Len()
			idx := []int{0, n / 2, n - 1}
			seen := map[int]bool{}
			for _, j := range idx {
				if j < 0 || j >= n || seen[j] {
					continue
				}
				seen[j] = true
				j := j
				switch fd.Kind() {
				case protoreflect.StringKind:
					*out = append(*out, strSlot{path: p + "[]", get: func() string { return l.Get(j).String() }, set: func(s string) { l.Set(j, protoreflect.ValueOfString(s)) }})
				case protoreflect.MessageKind:
					collectStrings(l.Get(j).Message(), p+"[]", depth+1, false, out)
				}
			}
		case fd.Kind() == protoreflect.StringKind:
			// unset string fields of a present message are slots too (a hostile client may set them)
			if fd.ContainingOneof() != nil && !m.Has(fd) {
				continue
			}
			fd := fd
			*out = append(*out, strSlot{path: p, get: func() string { return m.Get(fd).String() }, set: func(s string) { m.Set(fd, protoreflect.ValueOfString(s)) }})
		case fd.Kind() == protoreflect.MessageKind:
			if m.Has(fd) {
				collectStrings(m.Mutable(fd).Message(), p, depth+1, false, out)
			}
		}
	}
}

func sortMapKeys(keys []protoreflect.MapKey) {
	sort.Slice(keys, func(i, j int) bool { return keys[i].String() < keys[j].String() })
}

// mutateStrings applies n byte-level string mutations to random string fields of msg and returns the
// class label ("str:<kind>@<field path>", the last mutation names the class).
func mutateStrings(r *rand.Rand, msg proto.Message, n int) string {
	var slots []strSlot
	collectStrings(msg.ProtoReflect(), "", 0, true, &slots)
	if len(slots) == 0 {
		return "str:none"
	}
	label := ""
	for i := 0; i < n; i++ {
		sl := slots[r.Intn(len(slots))]
		other := slots[r.Intn(len(slots))].get()
		kind := strKinds[r.Intn(len(strKinds))]
		sl.set(mutateString(r, kind, sl.get(), other))
		label = "str:" + kind + "@" + sl.path
	}
	return label
}
