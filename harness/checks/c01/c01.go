// Package c01: Check decisions match the model's relation semantics (reference-model monitor).
package c01

import (
	"fmt"
	"sync"
	"time"

	openfgav1 "github.com/openfga/api/proto/openfga/v1"

	"github.com/openfga/openfga/verifharness/checks/sem"
	"github.com/openfga/openfga/verifharness/drive"
	"github.com/openfga/openfga/verifharness/gen"
	"github.com/openfga/openfga/verifharness/ref"
	"github.com/openfga/openfga/verifharness/vk"
)

func init() { vk.Register("C01", "exploration", run) }

func run(c *vk.Ctx) {
	c.SetRule("cases = seeded (model, tuple set) pairs over the bounded vocabulary (4 types, ≤4 relations/type, rewrite depth ≤3, " +
		"≤2 conditions, 3 ids/type, 0–40 tuples incl. left-over invalid ones written under a permissive earlier model, a seeded part passed as contextual tuples); " +
		"each case is expanded to object×relation×subject×context requests and each request is sent through Server.Check once per forced strategy mode; " +
		"distinct_nontrivial counts distinct (rewrite skeleton, subject kind, reference value, model feature set) among requests whose reference value is T or E or whose object carries tuples")
	c.Assume("reference semantics harness/ref (calibrated against the repository's YAML expectations before every run)")
	c.Assume("memory backend (quick); memory and sqlite (thorough); postgres/mysql not runnable here")
	if !sem.Calibrate(c) {
		return
	}
	if c.Replay != "" {
		sem.ReplayCheck(c, c.Replay)
		return
	}
	backends := []string{"memory"}
	if !c.Quick() {
		backends = append(backends, "sqlite")
	}
	nCases := c.Pick(140, 1500)
	for _, be := range backends {
		n := nCases
		if be == "sqlite" {
			n = nCases / 8 // the pure-Go sqlite driver serialises on one mutex
		}
		runBackend(c, be, n)
	}
	for name, n := range drive.ForcedCounts() {
		c.Count("strategy_forced_"+name, int(n))
	}
}

func runBackend(c *vk.Ctx, backend string, nCases int) {
	srv, err := drive.New(drive.Cfg{Backend: backend})
	if err != nil {
		c.HarnessError("server: %v", err)
		return
	}
	defer srv.Close()
	modes := []drive.Mode{"default", "fast"}
	var wg sync.WaitGroup
	sem16 := make(chan struct{}, 16)
	for i := 0; i < nCases; i++ {
		wg.Add(1)
		sem16 <- struct{}{}
		go func(i int) {
			defer wg.Done()
			defer func() { <-sem16 }()
			oneCase(c, srv, backend, i, modes)
		}(i)
	}
	wg.Wait()
}

func oneCase(c *vk.Ctx, srv *drive.Srv, backend string, i int, modes []drive.Mode) {
	r := c.Rand(fmt.Sprintf("case-%s-%d", backend, i))
	gc, store := sem.Generate(c, srv, r, fmt.Sprintf("c01-%s-%d", backend, i), gen.Options{Wide: i%4 == 3, Algebra: i%5 == 2, Hierarchy: i%6 == 4})
	if gc == nil {
		return
	}
	rm := ref.NewModel(gc.Model, ref.TemplateCondEval)
	// split: a seeded part of the model-valid tuples travels as contextual tuples
	var stored, contextual []*openfgav1.TupleKey
	useCtx := r.Intn(3) == 0
	for _, tk := range gc.Tuples {
		if useCtx && len(contextual) < 6 && rm.ValidForRead(tk) && r.Intn(3) == 0 {
			contextual = append(contextual, tk)
		} else {
			stored = append(stored, tk)
		}
	}
	p, err := sem.Install(c, srv, gc, store, stored)
	if err != nil {
		c.HarnessError("case %d: %v", i, err)
		return
	}
	subjects, ctxs, nodes := sem.RequestSpace(r, p, c.Pick(5, 8), c.Pick(2, 4))
	all := append(append([]*openfgav1.TupleKey{}, stored...), contextual...)
	sampled := false
	slow := 0 // requests of this case that took 5 s or more (workload shaping only, never a verdict)
	for _, rctx := range ctxs {
		rc := ref.NewCase(p.Ref, all, rctx, extraObjects(nodes, subjects)...)
		hasTuples := map[string]bool{}
		for _, tk := range rc.ValidTuples() {
			hasTuples[tk.GetObject()] = true
		}
		for _, subj := range subjects {
			res := rc.Eval(subj)
			for _, n := range nodes {
				k := res.K(n[0], n[1])
				rq := sem.Request{Object: n[0], Relation: n[1], User: subj, Ctx: rctx}
				for _, mode := range modes {
					if slow >= 4 {
						// a case whose requests each run for seconds (the listed exponential-resolution shapes, worst
						// on the sqlite driver) would hold the run for hours: its remaining requests are skipped
						c.Count("requests_skipped_in_cases_with_4_slow_requests", 1)
						continue
					}
					drive.ForceStore(p.Store, mode)
					t0 := time.Now()
					o := srv.Check(drive.Req{Store: p.Store, Object: n[0], Relation: n[1], User: subj, Ctx: rctx, Contextual: contextual})
					if time.Since(t0) >= 5*time.Second {
						if slow++; slow == 4 {
							c.Count("cases_cut_short_after_4_slow_requests", 1)
						}
					}
					v := sem.JudgeCheck(k, rc.AnyUnevaluable(), o)
					c.Case(sem.ShapeOf(p, rq, k)+"|"+string(mode), k != ref.F || hasTuples[n[0]])
					c.Count("verdict_"+v.String(), 1)
					c.Count("reference_"+k.String(), 1)
					if o.Err != nil {
						c.Count("answers_error", 1)
					}
					switch v {
					case sem.Agree, sem.NotJudged:
					default:
						report(c, p, rc, backend, mode, rq, contextual, k, o, v)
					}
				}
			}
		}
		if !sampled && len(rc.ValidTuples()) > 3 {
			sampled = true
			c.SampleEvery(i, 20, func() any {
				return map[string]any{"case": gc.Name, "model": p.Ref.DSL(), "stored": gen.TupleStrings(stored), "contextual": gen.TupleStrings(contextual),
					"contexts": len(ctxs), "subjects": subjects, "requests_per_mode": len(subjects) * len(nodes) * len(ctxs)}
			})
		}
	}
}

func extraObjects(nodes [][2]string, subjects []string) []string {
	var out []string
	for _, n := range nodes {
		out = append(out, n[0])
	}
	return append(out, subjects...)
}

func report(c *vk.Ctx, p *sem.Prepared, rc *ref.Case, backend string, mode drive.Mode, rq sem.Request, contextual []*openfgav1.TupleKey, k ref.Tri, o drive.Outcome, v sem.Verdict) {
	t, _ := ref.SplitObject(rq.Object)
	key := fmt.Sprintf("%s|%s|%s|%s|%s", v, ref.Shape(p.Ref.Rewrite(t, rq.Relation)), ref.UserKind(rq.User), k, mode)
	what := fmt.Sprintf("Check(%s#%s@%s, ctx=%s) under strategy mode %q on %s: reference says %s, server answered %s [%s]",
		rq.Object, rq.Relation, rq.User, gen.CtxString(rq.Ctx), mode, backend, k, o, v)
	w := sem.Witness(p, backend+",v1,no-cache", mode, rq, contextual, k.String(), o.String())
	sem.AddWire(w, p, contextual, rq.Ctx)
	if o.Panic != "" {
		w["panic_stack"] = o.Panic
	}
	c.Violation(sem.ClassifyCheck("C01", rc, rq, k, o, mode), key, what, w)
}
