// Package c02: Check and ListObjects answers do not depend on strategy or tuning
// (differential monitor across forced strategies, tuning lattice, repetition and concurrency).
package c02

import (
	"fmt"
	"math/rand"
	"os"
	"sort"
	"strings"
	"sync"

	openfgav1 "github.com/openfga/api/proto/openfga/v1"

	"github.com/openfga/openfga/verifharness/checks/sem"
	"github.com/openfga/openfga/verifharness/drive"
	"github.com/openfga/openfga/verifharness/gen"
	"github.com/openfga/openfga/verifharness/ref"
	"github.com/openfga/openfga/verifharness/vk"
)

func init() { vk.Register("C02", "exploration", run) }

type namedSrv struct {
	name string
	s    *drive.Srv
}

func run(c *vk.Ctx) {
	c.SetRule("each sampled request of each seeded case is answered under every (server tuning × forced strategy mode) combination, repeated and issued concurrently; " +
		"all decisions for one request must be equal (error-vs-decision differences are judged with the C01 acceptance relation, the reference names the wrong side); " +
		"ListObjects sets are compared across the three engines, their tuning and strategy modes; distinct_nontrivial = distinct (rewrite skeleton, subject kind, reference value, feature set) of requests with reference value T/E or data on the object")
	c.Assume("strategies are forced through the verif planner hook; the evidence counts how often each strategy name was actually selected")
	c.Assume("reference semantics harness/ref arbitrates which side of a difference is wrong")
	c.RaceAnchors = []string{"/internal/graph/", "/internal/check/", "/internal/planner/", "/pkg/server/commands/", "/internal/listobjects/", "/pkg/storage/storagewrappers/", "/internal/throttler/"}
	if !sem.Calibrate(c) {
		return
	}
	if c.Replay != "" {
		if strings.Contains(c.Replay, "-lo-") || os.Getenv("VERIF_REPLAY_LIST") != "" {
			sem.ReplayList(c, c.Replay)
		} else {
			sem.ReplayCheck(c, c.Replay)
		}
		return
	}
	base, err := drive.New(drive.Cfg{})
	if err != nil {
		c.HarnessError("server: %v", err)
		return
	}
	defer base.Close()
	cfgs := []drive.Cfg{
		{Breadth: 1, ReadsCheck: 1, ReadsLO: 1},
		{Breadth: 2, ReadsCheck: 2, ReadsLO: 2, Throttle: true},
		{LOEngine: "optimized", Breadth: 10},
		{LOEngine: "pipeline", Chunk: 1, Buffer: -1, Procs: 1},
		{LOEngine: "pipeline", Chunk: 2, Buffer: 2, Procs: 3},
	}
	if !c.Quick() {
		cfgs = append(cfgs,
			drive.Cfg{LOEngine: "pipeline", Chunk: 100, Buffer: 128, Procs: 3},
			drive.Cfg{LOEngine: "optimized", Breadth: 1, ReadsLO: 1, Throttle: true},
			drive.Cfg{Breadth: 10, ReadsCheck: 100},
		)
	}
	servers := []namedSrv{{"default", base}}
	for _, cfg := range cfgs {
		s, err := drive.NewShared(cfg, base)
		if err != nil {
			c.HarnessError("server %s: %v", cfg.Name(), err)
			return
		}
		defer s.Close()
		servers = append(servers, namedSrv{cfg.Name(), s})
	}
	wideCandidates(c, base)
	modes := []drive.Mode{"default", "fast", "mixed:1", ""}
	if !c.Quick() {
		modes = append(modes, "mixed:2", "mixed:3")
	}
	nCases := c.Pick(40, 160)
	sem.RunCases(c, base, "mem", nCases, gen.Options{WideEvery: 4, AlgebraEvery: 5, HierarchyEvery: 3}, 4, 8, func(i int, r *rand.Rand, p *sem.Prepared, contextual []*openfgav1.TupleKey) {
		oneCase(c, i, r, p, contextual, servers, modes)
	})
	for name, n := range drive.ForcedCounts() {
		c.Count("strategy_forced_"+name, int(n))
	}
}

func oneCase(c *vk.Ctx, i int, r *rand.Rand, p *sem.Prepared, contextual []*openfgav1.TupleKey, servers []namedSrv, modes []drive.Mode) {
	subjects, ctxs, nodes := sem.RequestSpace(r, p, 5, 2)
	all := p.AllTuples(contextual)
	for _, rctx := range ctxs {
		rc := ref.NewCase(p.Ref, all, rctx, sem.ExtraObjects(nodes, subjects)...)
		hasTuples := map[string]bool{}
		for _, tk := range rc.ValidTuples() {
			hasTuples[tk.GetObject()] = true
		}
		reqs := sem.SampleRequests(r, rc, nodes, subjects, c.Pick(24, 60))
		type ans struct {
			cfg  string
			mode drive.Mode
			o    drive.Outcome
		}
		for qi, rq := range reqs {
			k := rc.Eval(rq.User).K(rq.Object, rq.Relation)
			var answers []ans
			for _, mode := range modes {
				drive.ForceStore(p.Store, mode)
				for si, ns := range servers {
					if si > 2 && (qi+si)%3 != 0 {
						continue // list-objects tuning servers answer only a third of the Check requests
					}
					o := ns.s.Check(drive.Req{Store: p.Store, Object: rq.Object, Relation: rq.Relation, User: rq.User, Ctx: rq.Ctx, Contextual: contextual})
					answers = append(answers, ans{ns.name, mode, o})
				}
			}
			// repetition + concurrency under the production planner (no forcing) and under mixed forcing
			if qi < 4 {
				for _, mode := range []drive.Mode{"", "mixed:1"} {
					drive.ForceStore(p.Store, mode)
					var wg sync.WaitGroup
					var mu sync.Mutex
					for g := 0; g < c.Pick(12, 32); g++ {
						wg.Add(1)
						go func(g int) {
							defer wg.Done()
							ns := servers[g%3]
							for rep := 0; rep < 3; rep++ {
								o := ns.s.Check(drive.Req{Store: p.Store, Object: rq.Object, Relation: rq.Relation, User: rq.User, Ctx: rq.Ctx, Contextual: contextual})
								mu.Lock()
								answers = append(answers, ans{ns.name + ",concurrent", mode, o})
								mu.Unlock()
							}
						}(g)
					}
					wg.Wait()
					c.Count("concurrent_bursts", 1)
				}
			}
			// verdict
			var allowed, denied []ans
			for _, a := range answers {
				c.Count("check_answers", 1)
				switch {
				case a.o.Code == "PANIC":
					c.Violation("", "panic|"+a.cfg, fmt.Sprintf("Check panicked under %s mode %q: %v", a.cfg, a.mode, a.o.Err),
						witness(p, a.cfg, a.mode, rq, contextual, k, a.o.String(), map[string]any{"stack": a.o.Panic}))
				case a.o.Err != nil:
					c.Count("check_errors", 1)
					if v := sem.JudgeCheck(k, rc.AnyUnevaluable(), a.o); v == sem.UnexpErr {
						c.Violation("", "unexpected-error|"+a.cfg+"|"+string(a.mode), fmt.Sprintf("Check(%s#%s@%s) fails under %s mode %q although nothing is unevaluable: %s", rq.Object, rq.Relation, rq.User, a.cfg, a.mode, a.o),
							witness(p, a.cfg, a.mode, rq, contextual, k, a.o.String(), nil))
					}
				case a.o.Allowed:
					allowed = append(allowed, a)
				default:
					denied = append(denied, a)
				}
			}
			c.Case(sem.ShapeOf(p, rq, k), k != ref.F || hasTuples[rq.Object])
			if len(allowed) > 0 && len(denied) > 0 {
				// the answer depends on the configuration: the reference names the wrong side
				wrong := denied
				if k == ref.F {
					wrong = allowed
				}
				if k == ref.E {
					wrong = append(append([]ans{}, allowed...), denied...)
				}
				finding := ""
				for wi, a := range wrong {
					f := sem.ClassifyCheck("C02", rc, rq, k, a.o, a.mode)
					if wi == 0 {
						finding = f
					} else if f != finding {
						finding = ""
					}
					if f == "" {
						finding = ""
						break
					}
				}
				a, d := allowed[0], denied[0]
				key := fmt.Sprintf("diff|%s|%s|%s", ref.Shape(p.Ref.Rewrite(typeOf(rq.Object), rq.Relation)), ref.UserKind(rq.User), k)
				what := fmt.Sprintf("Check(%s#%s@%s, ctx=%s) is allowed under [%s, mode %q] but denied under [%s, mode %q] (%d allowed / %d denied answers; reference %s)",
					rq.Object, rq.Relation, rq.User, gen.CtxString(rq.Ctx), a.cfg, a.mode, d.cfg, d.mode, len(allowed), len(denied), k)
				w := witness(p, wrong[0].cfg, wrong[0].mode, rq, contextual, k, what, nil)
				c.Violation(finding, key, what, w)
			}
		}
		listObjects(c, r, p, rc, contextual, servers, modes, subjects)
	}
	c.SampleEvery(i, 10, func() any {
		return map[string]any{"case": p.Case.Name, "model": p.Ref.DSL(), "stored": gen.TupleStrings(p.Stored), "contextual": gen.TupleStrings(contextual), "servers": len(servers), "modes": modes}
	})
}

func typeOf(o string) string { t, _ := ref.SplitObject(o); return t }

func witness(p *sem.Prepared, cfg string, mode drive.Mode, rq sem.Request, contextual []*openfgav1.TupleKey, k ref.Tri, got string, extra map[string]any) map[string]any {
	w := sem.Witness(p, cfg, mode, rq, contextual, k.String(), got)
	sem.AddWire(w, p, contextual, rq.Ctx)
	for kk, v := range extra {
		w[kk] = v
	}
	return w
}

func listObjects(c *vk.Ctx, r *rand.Rand, p *sem.Prepared, rc *ref.Case, contextual []*openfgav1.TupleKey, servers []namedSrv, modes []drive.Mode, subjects []string) {
	type tr struct{ t, rel string }
	var trs []tr
	for _, t := range p.Ref.TypeNames() {
		for _, rel := range p.Ref.RelationNames(t) {
			trs = append(trs, tr{t, rel})
		}
	}
	r.Shuffle(len(trs), func(i, j int) { trs[i], trs[j] = trs[j], trs[i] })
	n := 0
	for _, x := range trs {
		for _, subj := range subjects {
			if n >= c.Pick(8, 20) {
				return
			}
			if r.Intn(3) != 0 {
				continue
			}
			want, anyE := sem.RefListObjects(rc, x.t, x.rel, subj)
			if anyE {
				c.Count("listobjects_skipped_unevaluable", 1)
				continue
			}
			n++
			results := map[string][]string{}
			for _, mode := range modes[:3] {
				drive.ForceStore(p.Store, mode)
				for _, ns := range servers {
					lo := ns.s.ListObjects(drive.Req{Store: p.Store, Object: x.t, Relation: x.rel, User: subj, Ctx: rc.Context, Contextual: contextual})
					c.Count("listobjects_answers", 1)
					if sem.Hung(c, ns.name, lo) {
						continue
					}
					if lo.Code == "PANIC" {
						c.Violation("", "lo-panic|"+ns.name, "ListObjects panicked: "+lo.Err.Error(), map[string]any{"stack": lo.Panic, "model": p.Ref.DSL()})
						continue
					}
					if lo.Err != nil {
						c.Count("listobjects_errors", 1)
						if !rc.AnyUnevaluable() && !sem.IsDepthError(lo.Err) {
							c.Violation("", "lo-error|"+ns.name, fmt.Sprintf("ListObjects(%s, %s, %s) fails under %s mode %q although nothing is unevaluable: %v", x.t, x.rel, subj, ns.name, mode, lo.Err),
								map[string]any{"model": p.Ref.DSL(), "stored": gen.TupleStrings(p.Stored), "contextual": gen.TupleStrings(contextual), "config": ns.name, "mode": string(mode)})
						}
						continue
					}
					items := append([]string{}, lo.Items...)
					sort.Strings(items)
					key := strings.Join(items, ",")
					results[key] = append(results[key], fmt.Sprintf("%s/mode=%s", ns.name, mode))
				}
			}
			c.Case("lo|"+ref.Shape(p.Ref.Rewrite(x.t, x.rel))+"|"+ref.UserKind(subj)+fmt.Sprintf("|n=%d", len(want)), len(want) > 0)
			if len(results) > 1 {
				var variants []string
				finding := "?"
				for k, who := range results {
					variants = append(variants, fmt.Sprintf("[%s] from %v", k, who))
					if k == strings.Join(want, ",") {
						continue
					}
					// attribute each deviating object through the Check deviation models
					got := map[string]bool{}
					if k != "" {
						for _, o := range strings.Split(k, ",") {
							got[o] = true
						}
					}
					wantSet := map[string]bool{}
					for _, o := range want {
						wantSet[o] = true
					}
					for _, id := range rc.Objects(x.t) {
						o := x.t + ":" + id
						if got[o] == wantSet[o] {
							continue
						}
						kk := ref.F
						if wantSet[o] {
							kk = ref.T
						}
						f := sem.ClassifyCheck("C02", rc, sem.Request{Object: o, Relation: x.rel, User: subj, Ctx: rc.Context}, kk, drive.Outcome{Allowed: got[o]}, "fast")
						if finding == "?" {
							finding = f
						} else if finding != f {
							finding = ""
						}
					}
				}
				if finding == "?" {
					finding = ""
				}
				if finding == "" {
					// the weighted reverse expansion (enable-list-objects-optimizations) omits permitted objects
					// nondeterministically (listed under C05): every deviating answer comes from optimized servers
					// only and is a sound subset of the reference set
					only := true
					wantSet := map[string]bool{}
					for _, o := range want {
						wantSet[o] = true
					}
					for k, who := range results {
						if k == strings.Join(want, ",") {
							continue
						}
						for _, w := range who {
							if !strings.Contains(w, "lo=optimized") {
								only = false
							}
						}
						if k != "" {
							for _, o := range strings.Split(k, ",") {
								if !wantSet[o] {
									only = false
								}
							}
						}
					}
					if only {
						finding = "C02-" + sem.FindingOptimizedOmits
					}
				}
				sort.Strings(variants)
				what := fmt.Sprintf("ListObjects(%s, %s, %s, ctx=%s) returns different sets depending on engine/tuning/strategy: %s; reference: %v", x.t, x.rel, subj, gen.CtxString(rc.Context), strings.Join(variants, " vs "), want)
				w := witness(p, "all-engines", "", sem.Request{Object: x.t, Relation: x.rel, User: subj, Ctx: rc.Context}, contextual, ref.T, strings.Join(variants, " vs "), map[string]any{"variants": variants, "reference_set": want, "kind": "listobjects"})
				c.Violation(finding, "lo-diff|"+ref.Shape(p.Ref.Rewrite(x.t, x.rel))+"|"+ref.UserKind(subj), what, w)
			}
		}
	}
}
