package c02

import (
	"fmt"
	"sort"
	"strings"
	"time"

	openfgav1 "github.com/openfga/api/proto/openfga/v1"
	parser "github.com/openfga/language/pkg/go/transformer"

	"github.com/openfga/openfga/verifharness/checks/sem"
	"github.com/openfga/openfga/verifharness/drive"
	"github.com/openfga/openfga/verifharness/vk"
)

// wideCandidates: the tuning knobs must not decide the answer when a ListObjects request produces many more
// candidates needing a confirming Check than any buffer or pool holds: 150 objects behind an
// intersection, wildcard and userset subjects (classic reverse expansion + Check), on classic servers that
// differ only in breadth limit and read concurrency (10, 2, 1), each with a 40 s ListObjects deadline.
func wideCandidates(c *vk.Ctx, base *drive.Srv) {
	m, err := parser.TransformDSLToProto(`model
  schema 1.1
type user
type group
  relations
    define member: [user]
type doc
  relations
    define allowed: [user, user:*, group#member]
    define viewer: [user, user:*, group#member] and allowed`)
	if err != nil {
		c.HarnessError("dsl: %v", err)
		return
	}
	n := 150
	store, err := base.CreateStore("c02-wide")
	if err != nil {
		c.HarnessError("store: %v", err)
		return
	}
	mid, err := base.WriteModel(store, m)
	if err != nil {
		c.HarnessError("model: %v", err)
		return
	}
	var tks []*openfgav1.TupleKey
	var want []string
	for i := 0; i < n; i++ {
		o := fmt.Sprintf("doc:w%03d", i)
		tks = append(tks, &openfgav1.TupleKey{Object: o, Relation: "viewer", User: "user:*"}, &openfgav1.TupleKey{Object: o, Relation: "allowed", User: "user:*"},
			&openfgav1.TupleKey{Object: o, Relation: "viewer", User: "group:g1#member"}, &openfgav1.TupleKey{Object: o, Relation: "allowed", User: "group:g1#member"})
		want = append(want, o)
	}
	for i := 0; i < len(tks); i += 40 {
		j := i + 40
		if j > len(tks) {
			j = len(tks)
		}
		if err := base.WriteTuples(store, mid, tks[i:j]); err != nil {
			c.HarnessError("tuples: %v", err)
			return
		}
	}
	sort.Strings(want)
	// The default-breadth server goes first: its duration says how fast this machine answers the request at
	// the moment. A server with a lower breadth limit works through the same candidates with less
	// parallelism; if it comes back with a truncated answer although the reference server needed less than
	// an eighth of the list deadline, the tuning decided the answer. A truncated answer on a machine that is
	// that slow for everybody is inconclusive.
	const deadline = 40 * time.Second
	ref10 := map[string]time.Duration{}
	for _, cfg := range []drive.Cfg{
		{Breadth: 10, ReadsCheck: 100, LODeadline: deadline},
		{Breadth: 2, ReadsCheck: 2, ReadsLO: 2, LODeadline: deadline},
		{Breadth: 1, ReadsCheck: 1, ReadsLO: 1, LODeadline: deadline},
	} {
		s, err := drive.NewShared(cfg, base)
		if err != nil {
			c.HarnessError("server %s: %v", cfg.Name(), err)
			return
		}
		for _, subj := range []string{"user:*", "group:g1#member"} {
			for _, streamed := range []bool{false, true} {
				rq := drive.Req{Store: store, Model: mid, Object: "doc", Relation: "viewer", User: subj}
				var lo drive.ListOutcome
				api := "ListObjects"
				t0 := time.Now()
				if streamed {
					api = "StreamedListObjects"
					lo = s.StreamedListObjects(rq)
				} else {
					lo = s.ListObjects(rq)
				}
				took := time.Since(t0)
				if cfg.Breadth == 10 {
					ref10[api+subj] = took
				}
				got := append([]string{}, lo.Items...)
				sort.Strings(got)
				c.Case(fmt.Sprintf("wide|%s|%s|%s|n=%d", api, cfg.Name(), subj, n), true)
				c.Count("wide_candidate_requests", 1)
				if lo.Hung {
					sem.Hung(c, cfg.Name(), lo)
					continue
				}
				if lo.Err != nil {
					c.Violation("", "wide|error|"+cfg.Name(), fmt.Sprintf("%s(doc, viewer, %s) over %d candidate objects on %s failed: %v", api, subj, n, cfg.Name(), lo.Err), map[string]any{"server": cfg.Name(), "objects": n})
					continue
				}
				if strings.Join(got, ",") != strings.Join(want, ",") {
					if ref10[api+subj] > deadline/8 || cfg.Breadth == 10 {
						c.Inconclusive(fmt.Sprintf("wide-candidate answer truncated on %s while the reference server needed %s", cfg.Name(), ref10[api+subj]))
						continue
					}
					c.Violation("", "wide|diff|"+cfg.Name(), fmt.Sprintf("%s(doc, viewer, %s) on %s returned %d of the %d permitted objects (no error, after %s; the default-breadth server answered completely in %s): the answer depends on the tuning (breadth limit / read concurrency)", api, subj, cfg.Name(), len(got), n, took.Round(time.Millisecond), ref10[api+subj].Round(time.Millisecond)),
						map[string]any{"server": cfg.Name(), "objects": n, "returned": len(got), "model": "viewer: [user, user:*, group#member] and allowed"})
				}
			}
		}
		s.Close()
	}
}
