package c02

import (
	"fmt"
	"sort"
	"strings"
	"time"

	openfgav1 "github.com/openfga/api/proto/openfga/v1"
	parser "github.com/openfga/language/pkg/go/transformer"

	"github.com/openfga/openfga/verifharness/drive"
	"github.com/openfga/openfga/verifharness/vk"
)

// wideCandidates: the tuning knobs must not decide the answer when a ListObjects request produces many more
// candidates needing a confirming Check than any buffer or pool holds: 150 / 400 objects behind an
// intersection, wildcard and userset subjects (classic reverse expansion + Check), on classic servers that
// differ only in breadth limit and read concurrency (1 … 10), each with a 6 s ListObjects deadline so that a
// stalled producer/consumer pair shows as a truncated answer instead of holding the run.
func wideCandidates(c *vk.Ctx, base *drive.Srv) {
	m, err := parser.TransformDSLToProto(`model
  schema 1.1
type user
type group
  relations
    define member: [user]
type doc
  relations
    define allowed: [user, user:*, group#member]
    define viewer: [user, user:*, group#member] and allowed`)
	if err != nil {
		c.HarnessError("dsl: %v", err)
		return
	}
	n := c.Pick(150, 400)
	store, err := base.CreateStore("c02-wide")
	if err != nil {
		c.HarnessError("store: %v", err)
		return
	}
	mid, err := base.WriteModel(store, m)
	if err != nil {
		c.HarnessError("model: %v", err)
		return
	}
	var tks []*openfgav1.TupleKey
	var want []string
	for i := 0; i < n; i++ {
		o := fmt.Sprintf("doc:w%03d", i)
		tks = append(tks, &openfgav1.TupleKey{Object: o, Relation: "viewer", User: "user:*"}, &openfgav1.TupleKey{Object: o, Relation: "allowed", User: "user:*"},
			&openfgav1.TupleKey{Object: o, Relation: "viewer", User: "group:g1#member"}, &openfgav1.TupleKey{Object: o, Relation: "allowed", User: "group:g1#member"})
		want = append(want, o)
	}
	for i := 0; i < len(tks); i += 40 {
		j := i + 40
		if j > len(tks) {
			j = len(tks)
		}
		if err := base.WriteTuples(store, mid, tks[i:j]); err != nil {
			c.HarnessError("tuples: %v", err)
			return
		}
	}
	sort.Strings(want)
	for _, cfg := range []drive.Cfg{
		{Breadth: 1, ReadsCheck: 1, ReadsLO: 1, LODeadline: 6 * time.Second},
		{Breadth: 2, ReadsCheck: 2, ReadsLO: 2, LODeadline: 6 * time.Second},
		{Breadth: 10, ReadsCheck: 100, LODeadline: 6 * time.Second},
	} {
		s, err := drive.NewShared(cfg, base)
		if err != nil {
			c.HarnessError("server %s: %v", cfg.Name(), err)
			return
		}
		for _, subj := range []string{"user:*", "group:g1#member"} {
			for _, streamed := range []bool{false, true} {
				rq := drive.Req{Store: store, Model: mid, Object: "doc", Relation: "viewer", User: subj}
				var lo drive.ListOutcome
				api := "ListObjects"
				if streamed {
					api = "StreamedListObjects"
					lo = s.StreamedListObjects(rq)
				} else {
					lo = s.ListObjects(rq)
				}
				got := append([]string{}, lo.Items...)
				sort.Strings(got)
				c.Case(fmt.Sprintf("wide|%s|%s|%s|n=%d", api, cfg.Name(), subj, n), true)
				c.Count("wide_candidate_requests", 1)
				if lo.Err != nil || lo.Hung {
					c.Violation("", "wide|error|"+cfg.Name(), fmt.Sprintf("%s(doc, viewer, %s) over %d candidate objects on %s failed: %v", api, subj, n, cfg.Name(), lo.Err), map[string]any{"server": cfg.Name(), "objects": n})
					continue
				}
				if strings.Join(got, ",") != strings.Join(want, ",") {
					c.Violation("", "wide|diff|"+cfg.Name(), fmt.Sprintf("%s(doc, viewer, %s) on %s returned %d of the %d permitted objects (no error): the answer depends on the tuning (breadth limit / read concurrency)", api, subj, cfg.Name(), len(got), n),
						map[string]any{"server": cfg.Name(), "objects": n, "returned": len(got), "model": "viewer: [user, user:*, group#member] and allowed"})
				}
			}
		}
		s.Close()
	}
}
