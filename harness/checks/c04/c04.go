// Package c04: contextual tuples behave exactly like stored tuples (differential monitor: the same
// tuple set split between stored and contextual vs fully stored; leak monitor over a shared-cache
// server; persistence monitor on the datastore).
package c04

import (
	"fmt"
	"math/rand"
	"sort"
	"strings"
	"sync"

	openfgav1 "github.com/openfga/api/proto/openfga/v1"

	"github.com/openfga/openfga/verifharness/checks/sem"
	"github.com/openfga/openfga/verifharness/drive"
	"github.com/openfga/openfga/verifharness/gen"
	"github.com/openfga/openfga/verifharness/ref"
	"github.com/openfga/openfga/verifharness/vk"
)

func init() { vk.Register("C04", "exploration", run) }

func run(c *vk.Ctx) {
	c.SetRule("each seeded case's model-valid tuple set X is split X = S ⊎ C; store A holds S and requests carry C as contextual tuples, store B (same model) holds S ∪ C and requests carry none; " +
		"Check, BatchCheck, ListObjects (classic / optimized / pipeline), ListUsers and Expand answers must be pairwise equal; then on a server with every cache enabled a history interleaving requests with contextual sets C1, C2 and none must still match the reference for its own tuple set, and the datastore must still hold exactly S; " +
		"distinct_nontrivial = distinct (API, rewrite skeleton, subject kind, reference value/size class, feature set) where the contextual part matters (answers with and without C differ) or the reference value is not F")
	c.Assume("reference semantics harness/ref arbitrates and classifies differences")
	if !sem.Calibrate(c) {
		return
	}
	base, err := drive.New(drive.Cfg{})
	if err != nil {
		c.HarnessError("server: %v", err)
		return
	}
	defer base.Close()
	engines := map[string]*drive.Srv{"classic": base}
	for _, e := range []string{"optimized", "pipeline"} {
		s, err := drive.NewShared(drive.Cfg{LOEngine: e}, base)
		if err != nil {
			c.HarnessError("server %s: %v", e, err)
			return
		}
		defer s.Close()
		engines[e] = s
	}
	cached, err := drive.NewShared(drive.Cfg{QueryCache: true, CheckIterCache: true, LOIterCache: true, SharedIter: true, LOEngine: "pipeline"}, base)
	if err != nil {
		c.HarnessError("cached server: %v", err)
		return
	}
	defer cached.Close()
	cachedV2, err := drive.NewShared(drive.Cfg{QueryCache: true, CheckIterCache: true, SharedIter: true, V2: true}, base)
	if err != nil {
		c.HarnessError("cached v2 server: %v", err)
		return
	}
	defer cachedV2.Close()
	sem.RunCases(c, base, "mem", c.Pick(150, 1200), gen.Options{WideEvery: 4, AlgebraEvery: 5, HierarchyEvery: 6}, 0, 12, func(i int, r *rand.Rand, p *sem.Prepared, _ []*openfgav1.TupleKey) {
		oneCase(c, i, r, p, base, engines, cached, cachedV2)
	})
}

func oneCase(c *vk.Ctx, i int, r *rand.Rand, pB *sem.Prepared, base *drive.Srv, engines map[string]*drive.Srv, cached, cachedV2 *drive.Srv) {
	// pB holds X fully stored (store B). Build store A with S only.
	var S, C []*openfgav1.TupleKey
	for _, tk := range pB.Stored {
		if pB.Ref.ValidForRead(tk) && len(C) < 10 && r.Intn(2) == 0 {
			C = append(C, tk)
		} else {
			S = append(S, tk)
		}
	}
	if len(C) == 0 {
		c.Count("cases_without_contextual_part", 1)
		return
	}
	storeA, err := base.CreateStore(pB.Case.Name + "-A")
	if err != nil {
		c.HarnessError("CreateStore: %v", err)
		return
	}
	pA, err := sem.Install(c, base, pB.Case, storeA, S)
	if err != nil {
		c.HarnessError("install A: %v", err)
		return
	}
	subjects, ctxs, nodes := sem.RequestSpace(r, pB, 5, 2)
	mode := []drive.Mode{"", "default", "fast"}[i%3]
	drive.ForceStore(pA.Store, mode)
	drive.ForceStore(pB.Store, mode)
	for _, rctx := range ctxs {
		rcX := ref.NewCase(pB.Ref, pB.Stored, rctx, sem.ExtraObjects(nodes, subjects)...)
		rcS := ref.NewCase(pB.Ref, S, rctx, sem.ExtraObjects(nodes, subjects)...)
		reqs := sem.SampleRequests(r, rcX, nodes, subjects, c.Pick(40, 80))
		// Check + BatchCheck
		var batch []drive.BatchItem
		for qi, rq := range reqs {
			kX := rcX.Eval(rq.User).K(rq.Object, rq.Relation)
			kS := rcS.Eval(rq.User).K(rq.Object, rq.Relation)
			matters := kX != kS
			if matters {
				c.Count("requests_where_contextual_part_matters", 1)
			}
			oA := base.Check(drive.Req{Store: pA.Store, Object: rq.Object, Relation: rq.Relation, User: rq.User, Ctx: rctx, Contextual: C})
			oB := base.Check(drive.Req{Store: pB.Store, Object: rq.Object, Relation: rq.Relation, User: rq.User, Ctx: rctx})
			c.Case("check|"+sem.ShapeOf(pB, rq, kX), matters || kX != ref.F)
			compareOutcomes(c, "Check", pA, pB, rcX, rq, C, kX, oA, oB, mode)
			if len(batch) < 20 {
				batch = append(batch, drive.BatchItem{ID: fmt.Sprintf("q%d", qi), Object: rq.Object, Relation: rq.Relation, User: rq.User, Ctx: rctx, Contextual: C})
			}
		}
		if len(batch) > 0 {
			bA, errA := base.BatchCheck(pA.Store, "", batch, false)
			noCtx := make([]drive.BatchItem, len(batch))
			for k, it := range batch {
				it.Contextual = nil
				noCtx[k] = it
			}
			bB, errB := base.BatchCheck(pB.Store, "", noCtx, false)
			if errA != nil || errB != nil {
				if (errA == nil) != (errB == nil) && !rcX.AnyUnevaluable() {
					c.Violation("", "batch-error", fmt.Sprintf("BatchCheck fails on one side only: contextual side err=%v, stored side err=%v", errA, errB), nil)
				}
			} else {
				for _, it := range batch {
					rq := sem.Request{Object: it.Object, Relation: it.Relation, User: it.User, Ctx: rctx}
					kX := rcX.Eval(it.User).K(it.Object, it.Relation)
					c.Case("batch|"+sem.ShapeOf(pB, rq, kX), kX != ref.F)
					compareOutcomes(c, "BatchCheck", pA, pB, rcX, rq, C, kX, bA[it.ID], bB[it.ID], mode)
				}
			}
		}
		// ListObjects on the three engines, ListUsers, Expand
		lists := 0
		for _, t := range pB.Ref.TypeNames() {
			for _, rel := range pB.Ref.RelationNames(t) {
				for _, subj := range subjects {
					if lists >= c.Pick(10, 24) || r.Intn(3) != 0 {
						continue
					}
					want, anyE := sem.RefListObjects(rcX, t, rel, subj)
					wantS, _ := sem.RefListObjects(rcS, t, rel, subj)
					if anyE {
						continue
					}
					lists++
					for name, srv := range engines {
						la := srv.ListObjects(drive.Req{Store: pA.Store, Object: t, Relation: rel, User: subj, Ctx: rctx, Contextual: C})
						lb := srv.ListObjects(drive.Req{Store: pB.Store, Object: t, Relation: rel, User: subj, Ctx: rctx})
						c.Case(fmt.Sprintf("lo|%s|%s|%s|n=%d", name, ref.Shape(pB.Ref.Rewrite(t, rel)), ref.UserKind(subj), len(want)), strings.Join(want, ",") != strings.Join(wantS, ",") || len(want) > 0)
						compareLists(c, "ListObjects/"+name, pA, pB, rcX, C, t, rel, subj, want, la, lb, mode)
					}
				}
			}
		}
		for li := 0; li < c.Pick(8, 20); li++ {
			n := nodes[r.Intn(len(nodes))]
			ft, fr := "user", ""
			if r.Intn(3) == 0 && len(pB.Ref.RelationNames("group")) > 0 {
				ft, fr = "group", pB.Ref.RelationNames("group")[0]
			}
			exp := sem.RefListUsers(rcX, n[0], n[1], ft, fr)
			if exp.AnyE {
				continue
			}
			la := base.ListUsers(drive.Req{Store: pA.Store, Object: n[0], Relation: n[1], Ctx: rctx, Contextual: C}, ft, fr)
			lb := base.ListUsers(drive.Req{Store: pB.Store, Object: n[0], Relation: n[1], Ctx: rctx}, ft, fr)
			c.Case(fmt.Sprintf("lu|%s|%s#%s|n=%d", ref.Shape(pB.Ref.Rewrite(typeOf(n[0]), n[1])), ft, fr, len(exp.Concrete)), len(exp.Concrete) > 0 || exp.Wildcard)
			compareLists(c, "ListUsers", pA, pB, rcX, C, n[0], n[1], ft+"#"+fr, nil, la, lb, mode)
		}
		if rctx == nil {
			for li := 0; li < c.Pick(8, 20); li++ {
				n := nodes[r.Intn(len(nodes))]
				ta, ea := base.Expand(drive.Req{Store: pA.Store, Object: n[0], Relation: n[1], Contextual: C})
				tb, eb := base.Expand(drive.Req{Store: pB.Store, Object: n[0], Relation: n[1]})
				c.Case("expand|"+ref.Shape(pB.Ref.Rewrite(typeOf(n[0]), n[1])), ta != nil && strings.Contains(ta.String(), "users"))
				if (ea == nil) != (eb == nil) || (ea == nil && sem.CanonTree(ta.GetRoot()) != sem.CanonTree(tb.GetRoot())) {
					c.Violation("", "expand|"+ref.Shape(pB.Ref.Rewrite(typeOf(n[0]), n[1])),
						fmt.Sprintf("Expand(%s#%s) differs between contextual and stored tuples: contextual side (err=%v) %v ; stored side (err=%v) %v", n[0], n[1], ea, ta, eb, tb),
						witness(pA, mode, sem.Request{Object: n[0], Relation: n[1]}, C, "stored-equivalent", "differs"))
				}
			}
		}
	}
	leak(c, r, pA, S, C, subjects, nodes, cached, "all-caches,v1,pipeline", mode)
	leak(c, r, pA, S, C, subjects, nodes, cachedV2, "all-caches,v2", mode)
	// persistence: store A must still contain exactly S
	got, err := base.ReadAll(pA.Store)
	if err != nil {
		c.HarnessError("ReadAll: %v", err)
		return
	}
	if a, b := keySet(got), keySet(S); a != b {
		c.Violation("", "persisted", fmt.Sprintf("after requests with contextual tuples the store holds %s instead of %s", a, b), witness(pA, mode, sem.Request{}, C, b, a))
	}
	c.Count("persistence_checks", 1)
	c.SampleEvery(i, 15, func() any {
		return map[string]any{"case": pB.Case.Name, "model": pB.Ref.DSL(), "stored_part_S": gen.TupleStrings(S), "contextual_part_C": gen.TupleStrings(C)}
	})
}

// leak: history on a cache-enabled server; every request must match the reference for ITS tuple set.
func leak(c *vk.Ctx, r *rand.Rand, pA *sem.Prepared, S, C []*openfgav1.TupleKey, subjects []string, nodes [][2]string, srv *drive.Srv, cfg string, mode drive.Mode) {
	half := len(C) / 2
	sets := [][]*openfgav1.TupleKey{C, C[:half], C[half:], nil}
	rcs := make([]*ref.Case, len(sets))
	for k, cs := range sets {
		rcs[k] = ref.NewCase(pA.Ref, append(append([]*openfgav1.TupleKey{}, S...), cs...), nil, sem.ExtraObjects(nodes, subjects)...)
	}
	reqs := sem.SampleRequests(r, rcs[0], nodes, subjects, c.Pick(12, 30))
	for round := 0; round < 3; round++ {
		for _, rq := range reqs {
			k := r.Intn(len(sets))
			want := rcs[k].Eval(rq.User).K(rq.Object, rq.Relation)
			o := srv.Check(drive.Req{Store: pA.Store, Object: rq.Object, Relation: rq.Relation, User: rq.User, Contextual: sets[k]})
			c.Count("leak_history_requests", 1)
			c.Case(fmt.Sprintf("leak|%s|set%d|%s", cfg, k, sem.ShapeOf(pA, rq, want)), want != ref.F)
			v := sem.JudgeCheck(want, rcs[k].AnyUnevaluable(), o)
			if o.Code == "Canceled" || o.Code == "DeadlineExceeded" || o.Code == "openfga_2058" || o.Code == "openfga_2057" {
				// nobody cancelled this request: a cancellation leaking between requests through shared
				// iterators is C09's subject, a deadline under load C20's
				c.Count("requests_cancelled_or_timed_out_without_client_cancel(not_judged_here)", 1)
				continue
			}
			if v != sem.Agree && v != sem.NotJudged {
				f := sem.ClassifyCheck("C04", rcs[k], rq, want, o, mode)
				if f == "" && strings.Contains(cfg, "v2") {
					f = sem.ClassifyV2("C04", pA, rcs[k], rq, want, o)
				}
				// does another contextual set explain the answer? then it leaked
				leaked := ""
				for j := range sets {
					if j != k && o.Err == nil {
						kj := rcs[j].Eval(rq.User).K(rq.Object, rq.Relation)
						if (kj == ref.T) == o.Allowed && kj != ref.E {
							leaked = fmt.Sprintf(" (the answer matches contextual set %d: possible leak through a cache)", j)
						}
					}
				}
				if f == "" && strings.Contains(cfg, "v2") && o.Err == nil {
					// the same engine without any cache on the same store and contextual set: the same answer is the
					// engine's deviation (C03's subject), not something a cache carried over from another request
					if tw := uncachedV2(srv); tw != nil {
						to := tw.Check(drive.Req{Store: pA.Store, Object: rq.Object, Relation: rq.Relation, User: rq.User, Contextual: sets[k]})
						if to.Err == nil && to.Allowed == o.Allowed {
							c.Count("engine_deviations_also_without_cache(not_judged_here)", 1)
							continue
						}
					}
				}
				c.Violation(f, fmt.Sprintf("leak|%s|%s|%s", cfg, v, ref.Shape(pA.Ref.Rewrite(typeOf(rq.Object), rq.Relation))),
					fmt.Sprintf("on %s, Check(%s#%s@%s) with contextual set %d answered %s, reference %s%s", cfg, rq.Object, rq.Relation, rq.User, k, o, want, leaked),
					witness(pA, mode, rq, sets[k], want.String(), o.String()))
			}
		}
	}
}

var (
	twinMu sync.Mutex
	twinV2 *drive.Srv
)

// uncachedV2 returns a weighted-graph server without caches on the datastore of the given server.
func uncachedV2(on *drive.Srv) *drive.Srv {
	twinMu.Lock()
	defer twinMu.Unlock()
	if twinV2 == nil {
		s, err := drive.NewShared(drive.Cfg{V2: true}, on)
		if err != nil {
			return nil
		}
		twinV2 = s
	}
	return twinV2
}

func typeOf(o string) string { t, _ := ref.SplitObject(o); return t }

func keySet(tks []*openfgav1.TupleKey) string {
	var s []string
	for _, tk := range tks {
		// a nil condition context and an empty one are the same stored value
		k := tk.GetObject() + "#" + tk.GetRelation() + "@" + tk.GetUser()
		if cn := tk.GetCondition().GetName(); cn != "" {
			k += " with " + cn
			if len(tk.GetCondition().GetContext().GetFields()) > 0 {
				b, _ := tk.GetCondition().GetContext().MarshalJSON()
				k += " " + string(b)
			}
		}
		s = append(s, k)
	}
	sort.Strings(s)
	return "[" + strings.Join(s, " ") + "]"
}

func witness(p *sem.Prepared, mode drive.Mode, rq sem.Request, contextual []*openfgav1.TupleKey, want, got string) map[string]any {
	w := sem.Witness(p, "memory", mode, rq, contextual, want, got)
	sem.AddWire(w, p, contextual, rq.Ctx)
	return w
}

func compareOutcomes(c *vk.Ctx, api string, pA, pB *sem.Prepared, rcX *ref.Case, rq sem.Request, C []*openfgav1.TupleKey, kX ref.Tri, oA, oB drive.Outcome, mode drive.Mode) {
	c.Count("compared_"+api, 1)
	if oA.Code == "PANIC" || oB.Code == "PANIC" {
		c.Violation("", "panic|"+api, api+" panicked: "+oA.String()+" / "+oB.String(), witness(pA, mode, rq, C, kX.String(), oA.String()))
		return
	}
	same := (oA.Err != nil) == (oB.Err != nil) && (oA.Err != nil || oA.Allowed == oB.Allowed)
	if same {
		return
	}
	if (oA.Err != nil || oB.Err != nil) && (kX == ref.E || rcX.AnyUnevaluable()) {
		return // error-vs-decision with an unevaluable condition in play: C01 acceptance relation
	}
	// the reference names the wrong side; attribute to a known finding when its deviation model explains that side
	wrong := oA
	if sem.JudgeCheck(kX, rcX.AnyUnevaluable(), oA) == sem.Agree {
		wrong = oB
	}
	f := sem.ClassifyCheck("C04", rcX, rq, kX, wrong, mode)
	c.Violation(f, fmt.Sprintf("%s|%s|%s|%s", api, ref.Shape(pB.Ref.Rewrite(typeOf(rq.Object), rq.Relation)), ref.UserKind(rq.User), kX),
		fmt.Sprintf("%s(%s#%s@%s, ctx=%s): with part of the tuples passed as contextual tuples the answer is %s, with all tuples stored it is %s (reference %s, mode %q)", api, rq.Object, rq.Relation, rq.User, gen.CtxString(rq.Ctx), oA, oB, kX, mode),
		witness(pA, mode, rq, C, oB.String(), oA.String()))
}

func compareLists(c *vk.Ctx, api string, pA, pB *sem.Prepared, rcX *ref.Case, C []*openfgav1.TupleKey, obj, rel, subj string, want []string, la, lb drive.ListOutcome, mode drive.Mode) {
	c.Count("compared_"+strings.SplitN(api, "/", 2)[0], 1)
	if sem.Hung(c, api, la, lb) {
		return
	}
	if (la.Err != nil) != (lb.Err != nil) {
		if rcX.AnyUnevaluable() {
			return
		}
		c.Violation("", "list-error|"+api, fmt.Sprintf("%s(%s, %s, %s): contextual side err=%v, stored side err=%v", api, obj, rel, subj, la.Err, lb.Err), witness(pA, mode, sem.Request{Object: obj, Relation: rel, User: subj}, C, "", ""))
		return
	}
	if la.Err != nil {
		return
	}
	a := append([]string{}, la.Items...)
	b := append([]string{}, lb.Items...)
	sort.Strings(a)
	sort.Strings(b)
	if strings.Join(a, ",") == strings.Join(b, ",") {
		return
	}
	// attribute through per-object Check deviation models when the list is a ListObjects answer
	f := ""
	if strings.HasPrefix(api, "ListObjects") && want != nil {
		wantSet := map[string]bool{}
		for _, o := range want {
			wantSet[o] = true
		}
		first := true
		for _, side := range [][]string{a, b} {
			got := map[string]bool{}
			for _, o := range side {
				got[o] = true
			}
			for o := range union(got, wantSet) {
				if got[o] == wantSet[o] {
					continue
				}
				k := ref.F
				if wantSet[o] {
					k = ref.T
				}
				ff := sem.ClassifyCheck("C04", rcX, sem.Request{Object: o, Relation: rel, User: subj, Ctx: rcX.Context}, k, drive.Outcome{Allowed: got[o]}, "fast")
				if first {
					f, first = ff, false
				} else if ff != f {
					f = ""
				}
			}
		}
	}
	if api == "ListUsers" {
		// ListUsers' exclusion bookkeeping (listed under C06) makes answers depend on message order: two runs
		// of the same question can differ. Attributed when every side is either the reference answer or
		// exactly what the executable model of that bookkeeping predicts (or the model is order-dependent).
		i := strings.Index(subj, "#")
		ft, fr := subj[:i], subj[i+1:]
		exp := sem.RefListUsers(rcX, obj, rel, ft, fr)
		wantLU := append([]string{}, exp.Concrete...)
		if exp.Wildcard {
			wantLU = append(wantLU, ft+":*")
		}
		sort.Strings(wantLU)
		all := true
		for _, side := range [][]string{a, b} {
			if strings.Join(side, ",") == strings.Join(wantLU, ",") {
				continue
			}
			if ff, _ := sem.ClassifyListUsersByModel("C04", pB, rcX, obj, rel, ft, fr, side, false); ff == "" {
				all = false
			}
		}
		if all {
			f = "C04-" + sem.FindingListUsersExclusion
		}
		want = wantLU
	}
	if f == "" && strings.HasPrefix(api, "ListObjects/optimized") && want != nil {
		// the weighted reverse expansion omits permitted objects nondeterministically (listed under C05):
		// two answers that are both sound subsets of the reference set differ by such omissions only
		sound := true
		ws := map[string]bool{}
		for _, o := range want {
			ws[o] = true
		}
		for _, side := range [][]string{a, b} {
			for _, o := range side {
				if !ws[o] {
					sound = false
				}
			}
		}
		if sound {
			f = "C04-" + sem.FindingOptimizedOmits
		}
	}
	c.Violation(f, "list|"+api+"|"+ref.Shape(pB.Ref.Rewrite(typeOf(obj), rel)),
		fmt.Sprintf("%s(%s, %s, %s, ctx=%s): with contextual tuples %v, with all tuples stored %v (reference %v)", api, obj, rel, subj, gen.CtxString(rcX.Context), a, b, want),
		witness(pA, mode, sem.Request{Object: obj, Relation: rel, User: subj, Ctx: rcX.Context}, C, strings.Join(b, ","), strings.Join(a, ",")))
}

func union(a, b map[string]bool) map[string]bool {
	out := map[string]bool{}
	for k := range a {
		out[k] = true
	}
	for k := range b {
		out[k] = true
	}
	return out
}
