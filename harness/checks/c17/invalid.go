package c17

import (
	"fmt"
	"math/rand"
	"sort"
	"strings"

	openfgav1 "github.com/openfga/api/proto/openfga/v1"
	"google.golang.org/protobuf/proto"

	"github.com/openfga/openfga/verifharness/gen"
)

// A mutation turns a valid base model into one whose validity is known from the documented rules of
// the modelling language (want = "reject" / "accept"), or into one that only the validator can judge
// (want = "").
type mutation struct {
	name  string
	want  string
	apply func(r *rand.Rand, m *openfgav1.AuthorizationModel, lim limits) bool
}

type limits struct {
	maxTypes int
	maxSize  int
}

// dummyID has the length of a real model id (the size limit is defined over the stored model).
const dummyID = "01HZZZZZZZZZZZZZZZZZZZZZZZ"

func sizeOf(m *openfgav1.AuthorizationModel) int {
	c := &openfgav1.AuthorizationModel{Id: dummyID, SchemaVersion: m.GetSchemaVersion(), TypeDefinitions: m.GetTypeDefinitions(), Conditions: m.GetConditions()}
	if c.SchemaVersion == "" {
		c.SchemaVersion = "1.1"
	}
	return proto.Size(c)
}

type relSite struct {
	td  *openfgav1.TypeDefinition
	rel string
}

func sites(m *openfgav1.AuthorizationModel, pred func(td *openfgav1.TypeDefinition, rel string) bool) []relSite {
	var out []relSite
	for _, td := range m.GetTypeDefinitions() {
		var rels []string
		for rel := range td.GetRelations() {
			rels = append(rels, rel)
		}
		sort.Strings(rels)
		for _, rel := range rels {
			if pred == nil || pred(td, rel) {
				out = append(out, relSite{td, rel})
			}
		}
	}
	return out
}

func hasThis(us *openfgav1.Userset) bool {
	switch u := us.GetUserset().(type) {
	case *openfgav1.Userset_This:
		return true
	case *openfgav1.Userset_Union:
		for _, c := range u.Union.GetChild() {
			if hasThis(c) {
				return true
			}
		}
	case *openfgav1.Userset_Intersection:
		for _, c := range u.Intersection.GetChild() {
			if hasThis(c) {
				return true
			}
		}
	case *openfgav1.Userset_Difference:
		return hasThis(u.Difference.GetBase()) || hasThis(u.Difference.GetSubtract())
	}
	return false
}

func restr(td *openfgav1.TypeDefinition, rel string) []*openfgav1.RelationReference {
	return td.GetMetadata().GetRelations()[rel].GetDirectlyRelatedUserTypes()
}

func setRestr(td *openfgav1.TypeDefinition, rel string, refs []*openfgav1.RelationReference) {
	if td.Metadata == nil {
		td.Metadata = &openfgav1.Metadata{}
	}
	if td.Metadata.Relations == nil {
		td.Metadata.Relations = map[string]*openfgav1.RelationMetadata{}
	}
	if td.Metadata.Relations[rel] == nil {
		td.Metadata.Relations[rel] = &openfgav1.RelationMetadata{}
	}
	td.Metadata.Relations[rel].DirectlyRelatedUserTypes = refs
}

func assignable(td *openfgav1.TypeDefinition, rel string) bool {
	return hasThis(td.GetRelations()[rel]) && len(restr(td, rel)) > 0
}

func pick(r *rand.Rand, s []relSite) (relSite, bool) {
	if len(s) == 0 {
		return relSite{}, false
	}
	return s[r.Intn(len(s))], true
}

func intCond(name, expr string) *openfgav1.Condition {
	return &openfgav1.Condition{Name: name, Expression: expr, Parameters: map[string]*openfgav1.ConditionParamTypeRef{
		"x": {TypeName: openfgav1.ConditionParamTypeRef_TYPE_NAME_INT}}}
}

func addCond(m *openfgav1.AuthorizationModel, key string, c *openfgav1.Condition) {
	if m.Conditions == nil {
		m.Conditions = map[string]*openfgav1.Condition{}
	}
	m.Conditions[key] = c
}

// padTo adds relation-less types until the stored size is exactly target (false when impossible).
func padTo(m *openfgav1.AuthorizationModel, target, maxTypes int) bool {
	n := 0
	for sizeOf(m)+300 < target {
		if len(m.TypeDefinitions) >= maxTypes-1 {
			return false
		}
		m.TypeDefinitions = append(m.TypeDefinitions, &openfgav1.TypeDefinition{Type: fmt.Sprintf("pad%03d_", n) + strings.Repeat("p", 247)})
		n++
	}
	if len(m.TypeDefinitions) >= maxTypes {
		return false
	}
	last := &openfgav1.TypeDefinition{Type: "padz"}
	m.TypeDefinitions = append(m.TypeDefinitions, last)
	for i := 0; i < 8; i++ {
		d := target - sizeOf(m)
		if d == 0 {
			return true
		}
		l := len(last.Type) + d
		if l < 1 || l > 254 {
			return false
		}
		last.Type = "padz" + strings.Repeat("z", l-4)
	}
	return sizeOf(m) == target
}

func mutations() []mutation {
	return []mutation{
		{"identity", "", func(r *rand.Rand, m *openfgav1.AuthorizationModel, _ limits) bool { return true }},
		{"undefined-computed-relation", "reject", func(r *rand.Rand, m *openfgav1.AuthorizationModel, _ limits) bool {
			s, ok := pick(r, sites(m, nil))
			if !ok {
				return false
			}
			s.td.Relations[s.rel] = uUnion(s.td.Relations[s.rel], uComputed("ghost"))
			return true
		}},
		{"undefined-ttu-computed-relation", "reject", func(r *rand.Rand, m *openfgav1.AuthorizationModel, _ limits) bool {
			// "ghost from parent" where no type the tupleset admits defines ghost
			s, ok := pick(r, sites(m, func(td *openfgav1.TypeDefinition, rel string) bool {
				return rel != "parent" && td.GetRelations()["parent"] != nil
			}))
			if !ok {
				return false
			}
			s.td.Relations[s.rel] = uUnion(s.td.Relations[s.rel], uTTU("parent", "ghost"))
			return true
		}},
		{"undefined-tupleset-relation", "reject", func(r *rand.Rand, m *openfgav1.AuthorizationModel, _ limits) bool {
			s, ok := pick(r, sites(m, nil))
			if !ok {
				return false
			}
			s.td.Relations[s.rel] = uUnion(s.td.Relations[s.rel], uTTU("ghost", s.rel))
			return true
		}},
		{"undefined-type-in-restriction", "reject", func(r *rand.Rand, m *openfgav1.AuthorizationModel, _ limits) bool {
			s, ok := pick(r, sites(m, assignable))
			if !ok {
				return false
			}
			setRestr(s.td, s.rel, append(restr(s.td, s.rel), gen.Ref("ghost", "", false, "")))
			return true
		}},
		{"undefined-relation-in-restriction", "reject", func(r *rand.Rand, m *openfgav1.AuthorizationModel, _ limits) bool {
			s, ok := pick(r, sites(m, func(td *openfgav1.TypeDefinition, rel string) bool { return assignable(td, rel) && rel != "parent" }))
			if !ok {
				return false
			}
			setRestr(s.td, s.rel, append(restr(s.td, s.rel), gen.Ref("group", "ghost", false, "")))
			return true
		}},
		{"this-without-type-restrictions", "reject", func(r *rand.Rand, m *openfgav1.AuthorizationModel, _ limits) bool {
			s, ok := pick(r, sites(m, assignable))
			if !ok {
				return false
			}
			if r.Intn(2) == 0 {
				setRestr(s.td, s.rel, nil)
			} else {
				delete(s.td.Metadata.Relations, s.rel)
			}
			return true
		}},
		{"type-restrictions-without-this", "reject", func(r *rand.Rand, m *openfgav1.AuthorizationModel, _ limits) bool {
			s, ok := pick(r, sites(m, func(td *openfgav1.TypeDefinition, rel string) bool { return !hasThis(td.GetRelations()[rel]) }))
			if !ok {
				return false
			}
			setRestr(s.td, s.rel, []*openfgav1.RelationReference{gen.Ref("user", "", false, "")})
			return true
		}},
		{"tupleset-on-non-direct-relation", "reject", func(r *rand.Rand, m *openfgav1.AuthorizationModel, _ limits) bool {
			s, ok := pick(r, sites(m, assignable))
			if !ok {
				return false
			}
			s.td.Relations["zz_ts"] = uComputed(s.rel)
			s.td.Relations["zz_ttu"] = uTTU("zz_ts", s.rel)
			return true
		}},
		{"undefined-condition", "reject", func(r *rand.Rand, m *openfgav1.AuthorizationModel, _ limits) bool {
			s, ok := pick(r, sites(m, assignable))
			if !ok {
				return false
			}
			refs := restr(s.td, s.rel)
			i := r.Intn(len(refs))
			c := proto.Clone(refs[i]).(*openfgav1.RelationReference)
			c.Condition = "c_ghost"
			if r.Intn(2) == 0 {
				refs[i] = c
			} else {
				setRestr(s.td, s.rel, append(refs, c))
			}
			return true
		}},
		{"bad-cel-expression", "reject", func(r *rand.Rand, m *openfgav1.AuthorizationModel, _ limits) bool {
			exprs := []string{"x <", "x < )", "", "x === 1", "x < 'a' +"}
			addCond(m, "c_bad", intCond("c_bad", exprs[r.Intn(len(exprs))]))
			return true
		}},
		{"cel-undeclared-parameter", "reject", func(r *rand.Rand, m *openfgav1.AuthorizationModel, _ limits) bool {
			addCond(m, "c_undecl", intCond("c_undecl", "y < 10"))
			return true
		}},
		{"cel-ill-typed", "reject", func(r *rand.Rand, m *openfgav1.AuthorizationModel, _ limits) bool {
			addCond(m, "c_typed", intCond("c_typed", "x == \"s\""))
			return true
		}},
		{"cel-not-boolean", "reject", func(r *rand.Rand, m *openfgav1.AuthorizationModel, _ limits) bool {
			addCond(m, "c_int_result", intCond("c_int_result", "x + 1"))
			return true
		}},
		{"condition-parameter-type-missing", "reject", func(r *rand.Rand, m *openfgav1.AuthorizationModel, _ limits) bool {
			c := intCond("c_notype", "x < 10")
			c.Parameters["x"] = &openfgav1.ConditionParamTypeRef{} // TYPE_NAME_UNSPECIFIED
			addCond(m, "c_notype", c)
			return true
		}},
		{"condition-key-name-mismatch", "reject", func(r *rand.Rand, m *openfgav1.AuthorizationModel, _ limits) bool {
			addCond(m, "c_key", intCond("c_other", "x < 10"))
			return true
		}},
		{"valid-unused-condition", "", func(r *rand.Rand, m *openfgav1.AuthorizationModel, _ limits) bool {
			addCond(m, "c_fine", intCond("c_fine", "x < 10"))
			return true
		}},
		{"duplicate-type", "reject", func(r *rand.Rand, m *openfgav1.AuthorizationModel, _ limits) bool {
			i := r.Intn(len(m.TypeDefinitions))
			m.TypeDefinitions = append(m.TypeDefinitions, proto.Clone(m.TypeDefinitions[i]).(*openfgav1.TypeDefinition))
			return true
		}},
		{"empty-type-name", "reject", func(r *rand.Rand, m *openfgav1.AuthorizationModel, _ limits) bool {
			m.TypeDefinitions = append(m.TypeDefinitions, &openfgav1.TypeDefinition{Type: ""})
			return true
		}},
		{"empty-relation-name", "reject", func(r *rand.Rand, m *openfgav1.AuthorizationModel, _ limits) bool {
			td := newTD("extra")
			direct(td, "", gen.Ref("user", "", false, ""))
			m.TypeDefinitions = append(m.TypeDefinitions, td)
			return true
		}},
		{"reserved-name", "reject", func(r *rand.Rand, m *openfgav1.AuthorizationModel, _ limits) bool {
			switch r.Intn(3) {
			case 0:
				m.TypeDefinitions = append(m.TypeDefinitions, &openfgav1.TypeDefinition{Type: "self"})
			case 1:
				m.TypeDefinitions = append(m.TypeDefinitions, &openfgav1.TypeDefinition{Type: "this"})
			default:
				td := newTD("extra")
				direct(td, []string{"self", "this"}[r.Intn(2)], gen.Ref("user", "", false, ""))
				m.TypeDefinitions = append(m.TypeDefinitions, td)
			}
			return true
		}},
		{"no-type-definitions", "reject", func(r *rand.Rand, m *openfgav1.AuthorizationModel, _ limits) bool {
			m.TypeDefinitions = nil
			return true
		}},
		{"rewrite-without-variant", "reject", func(r *rand.Rand, m *openfgav1.AuthorizationModel, _ limits) bool {
			td := newTD("extra")
			td.Relations["r"] = &openfgav1.Userset{}
			m.TypeDefinitions = append(m.TypeDefinitions, td)
			return true
		}},
		{"computed-cycle-without-entrypoint", "reject", func(r *rand.Rand, m *openfgav1.AuthorizationModel, _ limits) bool {
			td := newTD("extra")
			td.Relations["p"] = uComputed("q")
			td.Relations["q"] = uComputed("p")
			m.TypeDefinitions = append(m.TypeDefinitions, td)
			return true
		}},
		{"self-referencing-computed", "reject", func(r *rand.Rand, m *openfgav1.AuthorizationModel, _ limits) bool {
			td := newTD("extra")
			td.Relations["p"] = uComputed("p")
			m.TypeDefinitions = append(m.TypeDefinitions, td)
			return true
		}},
		{"schema-version", "", func(r *rand.Rand, m *openfgav1.AuthorizationModel, _ limits) bool {
			m.SchemaVersion = []string{"", "1.0", "1.2", "2.0", "1.1 "}[r.Intn(5)]
			return true
		}},
		{"extra-valid-type", "", func(r *rand.Rand, m *openfgav1.AuthorizationModel, _ limits) bool {
			td := newTD("extra")
			direct(td, "r", gen.Ref("user", "", false, ""), gen.Ref("user", "", true, ""))
			td.Relations["s"] = uDiff(uComputed("r"), uComputed("t"))
			direct(td, "t", gen.Ref("extra", "r", false, ""))
			m.TypeDefinitions = append(m.TypeDefinitions, td)
			return true
		}},
		{"type-count-at-limit", "limit", func(r *rand.Rand, m *openfgav1.AuthorizationModel, lim limits) bool {
			for i := 0; len(m.TypeDefinitions) < lim.maxTypes; i++ {
				m.TypeDefinitions = append(m.TypeDefinitions, &openfgav1.TypeDefinition{Type: fmt.Sprintf("t%03d", i)})
			}
			return len(m.TypeDefinitions) == lim.maxTypes
		}},
		{"type-count-over-limit", "reject", func(r *rand.Rand, m *openfgav1.AuthorizationModel, lim limits) bool {
			over := 1 + r.Intn(3)
			for i := 0; len(m.TypeDefinitions) < lim.maxTypes+over; i++ {
				m.TypeDefinitions = append(m.TypeDefinitions, &openfgav1.TypeDefinition{Type: fmt.Sprintf("t%03d", i)})
			}
			return true
		}},
		{"size-at-limit", "limit", func(r *rand.Rand, m *openfgav1.AuthorizationModel, lim limits) bool {
			return lim.maxSize <= 64*1024 && padTo(m, lim.maxSize, lim.maxTypes)
		}},
		{"size-over-limit", "reject", func(r *rand.Rand, m *openfgav1.AuthorizationModel, lim limits) bool {
			return lim.maxSize <= 64*1024 && padTo(m, lim.maxSize+1+r.Intn(2)*100, lim.maxTypes)
		}},
	}
}
