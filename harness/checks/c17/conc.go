package c17

import (
	"context"
	"fmt"
	"math/rand"
	"sort"
	"sync"
	"sync/atomic"
	"time"

	"github.com/anishathalye/porcupine"
	"github.com/oklog/ulid/v2"
	openfgav1 "github.com/openfga/api/proto/openfga/v1"
	"google.golang.org/protobuf/proto"

	"github.com/openfga/openfga/pkg/storage"
	"github.com/openfga/openfga/pkg/storage/memory"
	"github.com/openfga/openfga/pkg/storage/storagewrappers"
	"github.com/openfga/openfga/pkg/typesystem"
	"github.com/openfga/openfga/verifharness/drive"
	"github.com/openfga/openfga/verifharness/vk"
)

const findingSingleflight = "C17-stale-latest-model-via-singleflight"

// ---- the observing datastore ----

// lookup is one FindLatestAuthorizationModel call that reached the real datastore.
type lookup struct {
	Store  string `json:"store"`
	Call   int64  `json:"call"`
	Return int64  `json:"return"`
	Result string `json:"result"`
}

// obsDS delays FindLatestAuthorizationModel (before and/or after the real lookup, seeded) so that
// lookups overlap writes, and can hold one lookup at a gate. It never alters results.
type obsDS struct {
	storage.OpenFGADatastore
	tick *atomic.Int64

	mu      sync.Mutex
	r       *rand.Rand
	maxUs   int // maximal delay in microseconds (0 = none)
	lookups []lookup

	gateStore string        // when non-empty: the next lookup of this store is held after its read
	reached   chan struct{} // closed when the held lookup has read the datastore
	release   chan struct{} // the held lookup continues when this is closed
	arrivals  atomic.Int64
}

func (d *obsDS) draw() (before, after time.Duration) {
	d.mu.Lock()
	defer d.mu.Unlock()
	if d.maxUs == 0 || d.r == nil {
		return 0, 0
	}
	switch d.r.Intn(4) {
	case 0:
		return 0, 0
	case 1:
		return time.Duration(d.r.Intn(d.maxUs)) * time.Microsecond, 0
	case 2:
		return 0, time.Duration(d.r.Intn(d.maxUs)) * time.Microsecond
	}
	return time.Duration(d.r.Intn(d.maxUs)) * time.Microsecond, time.Duration(d.r.Intn(d.maxUs)) * time.Microsecond
}

func (d *obsDS) FindLatestAuthorizationModel(ctx context.Context, store string) (*openfgav1.AuthorizationModel, error) {
	d.arrivals.Add(1)
	before, after := d.draw()
	if before > 0 {
		time.Sleep(before)
	}
	call := d.tick.Add(1)
	m, err := d.OpenFGADatastore.FindLatestAuthorizationModel(ctx, store)
	ret := d.tick.Add(1)
	d.mu.Lock()
	d.lookups = append(d.lookups, lookup{store, call, ret, m.GetId()})
	var reached, release chan struct{}
	if d.gateStore == store && d.gateStore != "" {
		d.gateStore = ""
		reached, release = d.reached, d.release
	}
	d.mu.Unlock()
	if reached != nil {
		close(reached)
		<-release
	}
	if after > 0 {
		time.Sleep(after)
	}
	return m, err
}

// arm makes the next lookup of store wait (after having read the datastore) until release is closed.
func (d *obsDS) arm(store string) (reached, release chan struct{}) {
	d.mu.Lock()
	defer d.mu.Unlock()
	d.gateStore = store
	d.reached, d.release = make(chan struct{}), make(chan struct{})
	return d.reached, d.release
}

func (d *obsDS) setDelay(r *rand.Rand, maxUs int) {
	d.mu.Lock()
	d.r, d.maxUs = r, maxUs
	d.mu.Unlock()
}

func (d *obsDS) takeLookups() []lookup {
	d.mu.Lock()
	defer d.mu.Unlock()
	out := d.lookups
	d.lookups = nil
	return out
}

// ---- recorded history and the register oracle ----

// op is one completed operation of a history. Writes carry the id the server returned; reads carry
// the model id the request resolved to.
type op struct {
	Client int    `json:"client"`
	Write  bool   `json:"write"`
	Kind   string `json:"kind"`
	ID     string `json:"id"`
	Call   int64  `json:"call"`
	Return int64  `json:"return"`
	Answer string `json:"answer,omitempty"`
	Req    string `json:"request,omitempty"`
}

type regIn struct {
	write bool
}

// registerModel is a last-writer-wins register holding the id of the latest model. A write installs
// the id it returned; a read must return the current value.
func registerModel(initial string) porcupine.Model {
	return porcupine.Model{
		Init: func() interface{} { return initial },
		Step: func(state, input, output interface{}) (bool, interface{}) {
			if input.(regIn).write {
				return true, output.(string)
			}
			return state.(string) == output.(string), state
		},
		Equal: func(a, b interface{}) bool { return a.(string) == b.(string) },
		DescribeOperation: func(input, output interface{}) string {
			if input.(regIn).write {
				return "write->" + output.(string)
			}
			return "read->" + output.(string)
		},
	}
}

func linearizable(initial string, ops []op) porcupine.CheckResult {
	var h []porcupine.Operation
	for _, o := range ops {
		h = append(h, porcupine.Operation{ClientId: o.Client, Input: regIn{o.Write}, Output: o.ID, Call: o.Call, Return: o.Return})
	}
	res, _ := porcupine.CheckOperationsVerbose(registerModel(initial), h, 20*time.Second)
	return res
}

// relaxShared is the executable deviation model of "lookups are shared": a request may take the
// result of a lookup that a request overlapping it started (resolver layer), which in turn may have
// taken the result of a lookup started by a request overlapping that one (model-cache layer). Every
// read's call time is moved back to the earliest call among reads with the same result reachable
// through at most two overlap hops. If the relaxed history is linearizable, lookup sharing explains
// every anomaly of the history.
func relaxShared(ops []op) []op {
	out := append([]op{}, ops...)
	byID := map[string][]int{}
	for i, o := range ops {
		if !o.Write {
			byID[o.ID] = append(byID[o.ID], i)
		}
	}
	overlap := func(a, b op) bool { return a.Call < b.Return && b.Call < a.Return }
	for _, idx := range byID {
		for _, i := range idx {
			best := ops[i].Call
			for _, j := range idx {
				if !overlap(ops[i], ops[j]) {
					continue
				}
				if ops[j].Call < best {
					best = ops[j].Call
				}
				for _, k := range idx {
					if overlap(ops[j], ops[k]) && ops[k].Call < best {
						best = ops[k].Call
					}
				}
			}
			out[i].Call = best
		}
	}
	return out
}

// staleWitness finds a minimal real-time contradiction: write(X) returned before write(Y) was
// called, write(Y) returned before the read was called, and the read resolved X.
func staleWitness(initial string, ops []op) map[string]any {
	wr := map[string]op{initial: {Write: true, ID: initial, Call: -1, Return: -1, Kind: "initial model"}}
	for _, o := range ops {
		if o.Write {
			wr[o.ID] = o
		}
	}
	for _, rd := range ops {
		if rd.Write {
			continue
		}
		wx, ok := wr[rd.ID]
		if !ok {
			return map[string]any{"read": rd, "problem": "resolved an id that no acknowledged or in-flight write returned"}
		}
		for _, wy := range ops {
			if wy.Write && wy.ID != rd.ID && wx.Return < wy.Call && wy.Return < rd.Call {
				return map[string]any{"older_write": wx, "newer_write_acknowledged_before_the_read_started": wy, "stale_read": rd}
			}
		}
	}
	return nil
}

var sampleOnce = map[string]*sync.Once{"directed": {}, "seeded: ": {}}

// judgeHistory decides one store's history. layer names what was driven (server / resolver / modelcache).
func judgeHistory(c *vk.Ctx, layer, cfg, store, initial string, ops []op, lookups []lookup, shape string) {
	sort.Slice(ops, func(i, j int) bool { return ops[i].Call < ops[j].Call })
	c.Count("histories_checked", 1)
	c.Count("history_ops", len(ops))
	nw := 0
	for _, o := range ops {
		if o.Write {
			nw++
		}
	}
	if layer == "server" && nw > 0 {
		sampleOnce[shape[:8]].Do(func() {
			c.Sample(map[string]any{"part": "concurrent latest", "layer": layer, "config": cfg, "shape": shape, "initial_model": initial, "first_operations": ops[:min(len(ops), 8)], "operations": len(ops)})
		})
	}
	res := linearizable(initial, ops)
	c.Case(fmt.Sprintf("history|%s|%s|%s|writes=%d|reads=%d|%v", layer, cfg, shape, nw, len(ops)-nw, res), nw > 0 && len(ops) > nw)
	switch res {
	case porcupine.Ok:
		c.Count("histories_linearizable", 1)
		return
	case porcupine.Unknown:
		c.Inconclusive("porcupine timed out")
		return
	}
	var mine []lookup
	for _, l := range lookups {
		if l.Store == store {
			mine = append(mine, l)
		}
	}
	wit := map[string]any{"layer": layer, "config": cfg, "store": store, "initial_model": initial, "shape": shape,
		"history": ops, "datastore_lookups_of_latest": mine, "minimal_contradiction": staleWitness(initial, ops),
		"clock": "call/return are values of one atomic counter"}
	relaxed := linearizable(initial, relaxShared(ops))
	if relaxed == porcupine.Ok {
		c.Count("histories_stale_explained_by_shared_lookup", 1)
		c.Violation(findingSingleflight, "singleflight|"+layer,
			fmt.Sprintf("[%s, %s] a request that started after WriteAuthorizationModel had been acknowledged resolved the OLDER model: the history of (write -> id, model-less request -> resolved id) is not linearizable as a last-writer-wins register, and becomes linearizable once a request is allowed to take the result of a FindLatestAuthorizationModel lookup started by an overlapping earlier request (singleflight sharing)", layer, cfg), wit)
		return
	}
	c.Violation("C17-latest-not-linearizable", "nonlinearizable|"+layer+"|"+cfg,
		fmt.Sprintf("[%s, %s] the history of (write -> id, model-less request -> resolved id) is not linearizable as a last-writer-wins register, and sharing of in-flight lookups does not explain it", layer, cfg), wit)
}

// ---- drivers of the three layers ----

// target abstracts "write a model" and "resolve the latest model" over the layer under test.
type target interface {
	write(store string, m *openfgav1.AuthorizationModel) (string, error)
	read(store string, r *rand.Rand, reader int, seq int) (id string, kind, req, answer string, err error)
	name() string
}

// serverTarget drives the real server through its RPCs.
type serverTarget struct {
	srv *drive.Srv
}

func (t serverTarget) name() string { return "server" }
func (t serverTarget) write(store string, m *openfgav1.AuthorizationModel) (string, error) {
	return t.srv.WriteModel(store, proto.Clone(m).(*openfgav1.AuthorizationModel))
}
func (t serverTarget) read(store string, r *rand.Rand, reader, seq int) (string, string, string, string, error) {
	u := probeUsers[r.Intn(len(probeUsers))]
	d := probeDocs[r.Intn(len(probeDocs))]
	var a answer
	req := ""
	switch r.Intn(8) {
	case 0:
		req = "ListObjects(doc, probe, " + u + ")"
		a = doListObjects(t.srv, store, "", "doc", "probe", u, false)
	case 1:
		req = "Expand(doc:1#probe)"
		a = doExpand(t.srv, store, "", "doc:1", "probe")
	case 2:
		obj := fmt.Sprintf("doc:c%d", writeSeq.Add(1))
		req = "Write(" + obj + "#mark0@user:a)"
		a = doWriteTuple(t.srv, store, "", obj, "mark0", "user:a")
	default:
		req = "Check(" + d + "#probe@" + u + ")"
		a = doCheck(t.srv, store, "", d, "probe", u)
	}
	var err error
	if a.Code == "PANIC" {
		err = fmt.Errorf("panic: %s\n%s", a.Err, a.Panic)
	}
	return a.id(), a.Kind, req, a.Payload, err
}

// resolverTarget drives typesystem.MemoizedTypesystemResolverFunc alone over the observing datastore.
type resolverTarget struct {
	ds      storage.OpenFGADatastore
	resolve typesystem.TypesystemResolverFunc
}

func (t resolverTarget) name() string { return "resolver" }
func (t resolverTarget) write(store string, m *openfgav1.AuthorizationModel) (string, error) {
	return dsWrite(t.ds, store, m)
}
func (t resolverTarget) read(store string, r *rand.Rand, reader, seq int) (string, string, string, string, error) {
	ts, err := t.resolve(context.Background(), store, "")
	if err != nil {
		return "", "resolve", "typesystemResolver(store, \"\")", "error: " + err.Error(), nil
	}
	return ts.GetAuthorizationModelID(), "resolve", "typesystemResolver(store, \"\")", "", nil
}

// cacheTarget drives storagewrappers.NewCachedOpenFGADatastore alone over the observing datastore.
type cacheTarget struct {
	ds storage.OpenFGADatastore // the caching wrapper
}

func (t cacheTarget) name() string { return "modelcache" }
func (t cacheTarget) write(store string, m *openfgav1.AuthorizationModel) (string, error) {
	return dsWrite(t.ds, store, m)
}
func (t cacheTarget) read(store string, r *rand.Rand, reader, seq int) (string, string, string, string, error) {
	m, err := t.ds.FindLatestAuthorizationModel(context.Background(), store)
	if err != nil {
		return "", "findlatest", "cachedDatastore.FindLatestAuthorizationModel(store)", "error: " + err.Error(), nil
	}
	return m.GetId(), "findlatest", "cachedDatastore.FindLatestAuthorizationModel(store)", "", nil
}

func dsWrite(ds storage.OpenFGADatastore, store string, m *openfgav1.AuthorizationModel) (string, error) {
	c := proto.Clone(m).(*openfgav1.AuthorizationModel)
	c.Id = ulid.Make().String()
	return c.Id, ds.WriteAuthorizationModel(context.Background(), store, c)
}

// ---- the directed schedule (minimal reproduction) ----

// directed runs: R1 starts and its lookup of the latest model reads the datastore (model A) and is
// held before returning; WriteAuthorizationModel(B) is acknowledged; R2 starts; after R2 has had
// time to join R1's lookup (or has started a lookup of its own) R1's lookup is released.
// R1 may legally resolve A (it overlaps the write). R2 started after the acknowledgement.
func directed(c *vk.Ctx, tg target, ds *obsDS, cfg, store, initial string, next *openfgav1.AuthorizationModel, r *rand.Rand, trial int) {
	ds.setDelay(nil, 0)
	ds.takeLookups()
	seed := r.Int63()
	var mu sync.Mutex
	var ops []op
	record := func(o op) { mu.Lock(); ops = append(ops, o); mu.Unlock() }
	reader := func(client int, done chan struct{}) {
		defer close(done)
		call := ds.tick.Add(1)
		id, kind, req, ans, err := tg.read(store, rand.New(rand.NewSource(seed+int64(client))), client, trial)
		ret := ds.tick.Add(1)
		if err != nil {
			c.Violation("", "panic|conc", "request panicked: "+err.Error(), map[string]any{"request": req})
			return
		}
		if id == "" {
			c.Count("concurrent_reads_without_resolved_id", 1)
			return
		}
		record(op{Client: client, Kind: kind, ID: id, Call: call, Return: ret, Req: req, Answer: ans})
	}
	reached, release := ds.arm(store)
	d1, d2 := make(chan struct{}), make(chan struct{})
	go reader(1, d1)
	select {
	case <-reached:
	case <-time.After(10 * time.Second):
		close(release)
		c.Inconclusive("directed schedule: the first request never looked the latest model up")
		<-d1
		return
	}
	call := ds.tick.Add(1)
	id, err := tg.write(store, next)
	ret := ds.tick.Add(1)
	if err != nil {
		close(release)
		<-d1
		c.HarnessError("directed schedule: write failed: %v", err)
		return
	}
	record(op{Client: 0, Write: true, Kind: "WriteAuthorizationModel", ID: id, Call: call, Return: ret})
	arrivedBefore := ds.arrivals.Load()
	go reader(2, d2)
	// give R2 the time to either join the in-flight lookup or reach the datastore itself; the wait only
	// shapes the schedule, the oracle uses the recorded logical clock alone
	deadline := time.Now().Add(30 * time.Millisecond)
	for time.Now().Before(deadline) && ds.arrivals.Load() == arrivedBefore {
		select {
		case <-d2:
			deadline = time.Now()
		default:
			time.Sleep(200 * time.Microsecond)
		}
	}
	close(release)
	<-d1
	<-d2
	mu.Lock()
	defer mu.Unlock()
	c.Count("directed_schedules_run", 1)
	for _, o := range ops {
		if !o.Write && o.Client == 2 {
			if o.ID == id {
				c.Count("directed_second_request_resolved_new_model", 1)
			} else {
				c.Count("directed_second_request_resolved_old_model", 1)
			}
		}
	}
	judgeHistory(c, tg.name(), cfg, store, initial, ops, ds.takeLookups(), "directed: R1 lookup held | write acknowledged | R2 starts | release")
}

// ---- seeded concurrent histories ----

// concurrent runs writers and model-less readers on nStores stores of one target and judges every
// store's history. It returns the id of the last write per store.
func concurrent(c *vk.Ctx, tg target, ds *obsDS, cfg string, stores []string, initial []string, seed int64, writers, readers, nWrites, nReads int, coherent func(store, id, req, answer string) string) []string {
	ds.setDelay(rand.New(rand.NewSource(seed)), 3000)
	ds.takeLookups()
	histories := make([][]op, len(stores))
	var mu sync.Mutex
	var wg sync.WaitGroup
	failed := atomic.Bool{}
	for si, st := range stores {
		for w := 0; w < writers; w++ {
			wg.Add(1)
			go func(si int, st string, w int) {
				defer wg.Done()
				r := rand.New(rand.NewSource(seed*1000 + int64(si*10+w)))
				for i := 0; i < nWrites; i++ {
					m := newMarker(r, i)
					time.Sleep(time.Duration(r.Intn(2500)) * time.Microsecond)
					call := ds.tick.Add(1)
					id, err := tg.write(st, m.Model)
					ret := ds.tick.Add(1)
					if err != nil {
						failed.Store(true)
						c.Inconclusive("concurrent write failed: " + drive.CodeOf(err))
						return
					}
					registerMarker(st, id, m)
					mu.Lock()
					histories[si] = append(histories[si], op{Client: w, Write: true, Kind: "WriteAuthorizationModel", ID: id, Call: call, Return: ret})
					mu.Unlock()
				}
			}(si, st, w)
		}
		for rd := 0; rd < readers; rd++ {
			wg.Add(1)
			go func(si int, st string, rd int) {
				defer wg.Done()
				r := rand.New(rand.NewSource(seed*1000 + 500 + int64(si*10+rd)))
				for i := 0; i < nReads; i++ {
					if r.Intn(3) == 0 {
						time.Sleep(time.Duration(r.Intn(1500)) * time.Microsecond)
					}
					call := ds.tick.Add(1)
					id, kind, req, ans, err := tg.read(st, r, rd, i)
					ret := ds.tick.Add(1)
					if err != nil {
						c.Violation("", "panic|conc", "request panicked: "+err.Error(), map[string]any{"request": req})
						continue
					}
					if id == "" {
						c.Count("concurrent_reads_without_resolved_id", 1)
						continue
					}
					mu.Lock()
					histories[si] = append(histories[si], op{Client: 100 + rd, Kind: kind, ID: id, Call: call, Return: ret, Req: req, Answer: ans})
					mu.Unlock()
				}
			}(si, st, rd)
		}
	}
	wg.Wait()
	ds.setDelay(nil, 0)
	last := make([]string, len(stores))
	// a final quiescent read per store closes the history
	for si, st := range stores {
		call := ds.tick.Add(1)
		id, kind, req, ans, err := tg.read(st, rand.New(rand.NewSource(seed)), 99, 0)
		ret := ds.tick.Add(1)
		if err == nil && id != "" {
			histories[si] = append(histories[si], op{Client: 199, Kind: kind, ID: id, Call: call, Return: ret, Req: req, Answer: ans})
			last[si] = id
		}
	}
	lookups := ds.takeLookups()
	c.Count("datastore_lookups_of_latest", len(lookups))
	if failed.Load() {
		return last
	}
	for si, st := range stores {
		if coherent != nil {
			for _, o := range histories[si] {
				if o.Write {
					continue
				}
				c.Evals(1)
				if msg := coherent(st, o.ID, o.Req, o.Answer); msg != "" {
					c.Violation("C17-answer-not-from-resolved-model", "incoherent|"+o.Kind, msg,
						map[string]any{"config": cfg, "store": st, "operation": o})
				}
			}
		}
		// concurrent writers: ids distinct, and ordered like the real-time order of non-overlapping writes
		var ws []op
		for _, o := range histories[si] {
			if o.Write {
				ws = append(ws, o)
			}
		}
		for i := range ws {
			for j := range ws {
				if i < j && ws[i].ID == ws[j].ID {
					c.Violation("C17-identifier-reused", "id-dup-conc", "two concurrent writes returned the same id "+ws[i].ID, map[string]any{"config": cfg, "writes": []op{ws[i], ws[j]}})
				}
				if ws[i].Return < ws[j].Call {
					c.Count("id_order_pairs_checked", 1)
					if !(ws[i].ID < ws[j].ID) {
						fid := "C17-identifier-not-increasing"
						if len(ws[i].ID) == 26 && len(ws[j].ID) == 26 && ws[i].ID[:10] == ws[j].ID[:10] {
							// same millisecond (the 48-bit time part of the two ULIDs is equal): listed finding
							fid = "C17-identifier-order-within-one-millisecond"
						}
						c.Violation(fid, "id-order-conc",
							fmt.Sprintf("write returning %s completed before the write returning %s started, but its id is not smaller", ws[i].ID, ws[j].ID), map[string]any{"config": cfg, "writes": []op{ws[i], ws[j]}})
					}
				}
			}
		}
		judgeHistory(c, tg.name(), cfg, st, initial[si], histories[si], lookups, fmt.Sprintf("seeded: %d writers x %d, %d readers x %d, lookup delay <3ms", writers, nWrites, readers, nReads))
	}
	return last
}

// marker registry of the concurrent part (id -> marker), filled by writers.
var (
	regMu   sync.Mutex
	regByID = map[string]*marker{}
)

func registerMarker(store, id string, m *marker) {
	regMu.Lock()
	regByID[store+"|"+id] = m
	regMu.Unlock()
}

func lookupMarker(store, id string) *marker {
	regMu.Lock()
	defer regMu.Unlock()
	return regByID[store+"|"+id]
}

// newObs builds the observing datastore over a fresh memory backend.
func newObs() *obsDS { return newObsOver(memory.New()) }

// tick is the one logical clock of the concurrent part.
var tick atomic.Int64

func newObsOver(in storage.OpenFGADatastore) *obsDS {
	return &obsDS{OpenFGADatastore: in, tick: &tick}
}

var writeSeq atomic.Int64

// layerTargets builds the two component-level targets over a fresh observing datastore each.
func resolverLayer() (target, *obsDS, func(), error) {
	ds := newObs()
	f, stop, err := typesystem.MemoizedTypesystemResolverFunc(ds, 100)
	if err != nil {
		return nil, nil, nil, err
	}
	return resolverTarget{ds: ds, resolve: f}, ds, func() { stop(); ds.Close() }, nil
}

func cacheLayer() (target, *obsDS, func(), error) {
	ds := newObs()
	cd, err := storagewrappers.NewCachedOpenFGADatastore(ds, 100)
	if err != nil {
		return nil, nil, nil, err
	}
	return cacheTarget{ds: cd}, ds, func() { cd.Close() }, nil
}
