// Package c17: models are validated, immutable and resolved to the latest.
//
// Monitors (all over executions of the real server):
//
//	A  acceptance <=> definition: WriteAuthorizationModel against the model validator run on the
//	   model the write path stores (+ request schema, type-count and size limits), and against the
//	   validity known by construction for hand-made invalid / valid models; a rejected write stores
//	   nothing.
//	B  identifiers: strictly increasing per store, also within one millisecond and for concurrent
//	   writers (distinct; ordered like the real-time order of non-overlapping writes).
//	C  immutability: every acknowledged model is read back equal to a private copy taken before the
//	   write, at later points of the history, one by one and through the paged listing (exactly the
//	   accepted models, newest first), on memory and sqlite, with the model caches warm or tiny.
//	D  latest resolution, sequential: after every acknowledged write the model-less requests resolve
//	   that id (response header published through the production gateway transport) and their
//	   answers equal the reference semantics under that model (consecutive models of a store have
//	   different fingerprints).
//	E  latest resolution, concurrent: recorded histories of (write -> id, model-less request ->
//	   resolved id) with call/return stamps from one atomic counter are checked with porcupine against
//	   a last-writer-wins register per store; a directed schedule holds one lookup of the latest model
//	   while a write is acknowledged and a second request starts.
package c17

import (
	"fmt"
	"math/rand"
	"strings"

	openfgav1 "github.com/openfga/api/proto/openfga/v1"

	"github.com/openfga/openfga/pkg/server"
	"github.com/openfga/openfga/pkg/storage"
	"github.com/openfga/openfga/verifharness/drive"
	"github.com/openfga/openfga/verifharness/vk"
)

func init() { vk.Register("C17", "exploration", run) }

const (
	defaultMaxTypes = 100
	defaultMaxSize  = 256 * 1024
	smallMaxSize    = 24 * 1024
)

func run(c *vk.Ctx) {
	c.RaceAnchors = []string{"/pkg/typesystem/", "/pkg/storage/storagewrappers/model_caching.go", "/pkg/server/commands/write_authzmodel.go", "/pkg/storage/memory/"}
	c.SetRule("A: seeded sequences of WriteAuthorizationModel with models from harness/gen (valid and invalid as drawn), members of a fixed-vocabulary 'marker' family, and 30 kinds of mutations of valid models (undefined relation / type / condition references, this without restrictions and the converse, tupleset on a non-direct relation, bad / ill-typed / non-boolean CEL, missing parameter type, key-name mismatch, duplicate / empty / reserved names, cycles without entrypoint, schema versions, type count and byte size at and over the limit); the RPC outcome is compared with the definition of acceptance (request schema + limits + typesystem.NewAndValidate on the model that would be stored) and with the validity known by construction; " +
		"B/C: every acknowledged id must exceed the store's earlier ids, and every acknowledged model is re-read (by id and through the paged list, random page sizes) at later points against a deep copy taken before the write; " +
		"D: per server configuration several stores receive interleaved sequences of marker models (doc#probe = seeded rewrite over viewer / editor / owner / viewer from parent, fingerprint = reference answers of nine Checks, different from the two previous models of the store); after each acknowledged write model-less Check x9, ListObjects / StreamedListObjects / BatchCheck, Expand, ListUsers and Write must publish that id in the Openfga-Authorization-Model-Id header and answer like harness/ref under that model, also after rejected writes, on other stores, and around explicit older ids; " +
		"E: writers and model-less readers run concurrently over a datastore wrapper that delays FindLatestAuthorizationModel by a seeded 0-3 ms before/after the real lookup; per store the history is checked with porcupine against a last-writer-wins register (initial value = the setup model), plus a directed schedule (lookup held after its read | write acknowledged | second request starts | release) against the server and against the typesystem resolver and the model-caching datastore alone; " +
		"distinct_nontrivial = distinct (backend, base kind/mutation kind, RPC outcome, definition verdict) for writes + distinct (configuration, probe rewrite, fingerprint, previous fingerprint) for sequential steps + distinct (layer, configuration, shape, #writes, #reads, verdict) for histories")
	c.Assume("the definition of acceptance is typesystem.NewAndValidate itself (the property defines acceptance relative to model validation); a validator that wrongly accepts a model outside the hand-made invalid kinds is not detected here")
	c.Assume("request-schema constraints generated from the API definition (WriteAuthorizationModelRequest.Validate) are part of the documented limits")
	c.Assume("reference answers for the marker family come from harness/ref; the family avoids conditions, wildcards and cycles, where known semantic findings of other properties live")
	c.Assume("the wall clock does not step backwards during the run (ULIDs embed it)")
	c.Assume("porcupine v1.3.0 decides linearizability; timeouts of porcupine are inconclusive")
	c.Assume("real-time order is the order of one process-wide atomic counter read immediately before a call and immediately after its return")

	lim := limits{maxTypes: defaultMaxTypes, maxSize: defaultMaxSize}
	limSmall := limits{maxTypes: defaultMaxTypes, maxSize: smallMaxSize}
	allCaches := drive.Cfg{QueryCache: true, CheckIterCache: true, LOIterCache: true, Controller: true, Extra: []server.OpenFGAServiceV1Option{transportOpt()}}

	// optional: --part=A|D|E restricts the run (debugging aid; evidence of a restricted run is partial)
	want := func(p string) bool {
		for _, a := range c.Args {
			if strings.HasPrefix(a, "--part=") {
				return strings.Contains(a[7:], p)
			}
		}
		return true
	}

	// ---- A/B/C ----
	if want("A") {
		cfg := allCaches
		cfg.Extra = append([]server.OpenFGAServiceV1Option{}, cfg.Extra...)
		cfg.Extra = append(cfg.Extra, server.WithMaxAuthorizationModelSizeInBytes(smallMaxSize))
		srv, err := drive.New(cfg)
		if err != nil {
			c.HarnessError("server: %v", err)
			return
		}
		acceptance(c, srv, "mem", c.Pick(400, 3000), limSmall)
		tightLoop(c, srv, "mem", c.Pick(300, 3000), limSmall)
		srv.Close()
		c.Logf("acceptance (memory) done")
	}
	if want("A") {
		srv, err := drive.New(drive.Cfg{Backend: "sqlite", Extra: []server.OpenFGAServiceV1Option{transportOpt(), server.WithAuthorizationModelCacheSize(2), server.WithTypesystemCacheSize(2)}})
		if err != nil {
			c.HarnessError("sqlite server: %v", err)
			return
		}
		acceptance(c, srv, "sqlite", c.Pick(120, 900), lim)
		tightLoop(c, srv, "sqlite", c.Pick(100, 800), lim)
		srv.Close()
		c.Logf("acceptance (sqlite) done")
	}

	// ---- D ----
	seqCfgs := []struct {
		tag string
		cfg drive.Cfg
	}{
		{"mem-caches", allCaches},
		{"sqlite", drive.Cfg{Backend: "sqlite", Extra: []server.OpenFGAServiceV1Option{transportOpt()}}},
		{"mem-v2", drive.Cfg{V2: true, QueryCache: true, Extra: []server.OpenFGAServiceV1Option{transportOpt()}}},
		{"mem-tinycaches", drive.Cfg{Extra: []server.OpenFGAServiceV1Option{transportOpt(), server.WithAuthorizationModelCacheSize(1), server.WithTypesystemCacheSize(1)}}},
	}
	for _, sc := range seqCfgs {
		if !want("D") {
			break
		}
		srv, err := drive.New(sc.cfg)
		if err != nil {
			c.HarnessError("server %s: %v", sc.tag, err)
			return
		}
		nStores, steps := 3, c.Pick(20, 50)
		if sc.cfg.Backend == "sqlite" { // the pure-Go sqlite driver is very slow under the race detector
			nStores, steps = 2, c.Pick(3, 30)
		}
		if sc.tag == "mem-tinycaches" || sc.tag == "mem-v2" {
			steps = c.Pick(12, 50)
		}
		sequential(c, srv, sc.tag, nStores, steps, lim)
		srv.Close()
		c.Logf("sequential latest (%s) done", sc.tag)
	}

	// ---- E ----
	if want("E") {
		concurrentPart(c)
	}
}

// concurrentPart runs the directed schedules and the seeded concurrent histories.
func concurrentPart(c *vk.Ctx) {
	r := c.Rand("conc")
	// component layers alone (memory backend underneath)
	type layerMaker func() (target, *obsDS, func(), error)
	for _, mk := range []layerMaker{resolverLayer, cacheLayer} {
		tg, ds, closeFn, err := mk()
		if err != nil {
			c.HarnessError("layer: %v", err)
			return
		}
		store := "01HC17LAYER000000000000000"
		cur, err := tg.write(store, setupModel())
		if err != nil {
			c.HarnessError("layer setup write: %v", err)
			return
		}
		for trial := 0; trial < c.Pick(6, 40); trial++ {
			m := newMarker(r, trial)
			directed(c, tg, ds, "memory", store, cur, m.Model, r, trial)
			// the store's latest is now whatever a quiescent read says
			if id, _, _, _, _ := tg.read(store, r, 0, 0); id != "" {
				cur = id
			}
		}
		for round := 0; round < c.Pick(3, 20); round++ {
			last := concurrent(c, tg, ds, "memory", []string{store}, []string{cur}, r.Int63(), 1+round%2, 3, c.Pick(12, 20), c.Pick(30, 50), nil)
			if last[0] != "" {
				cur = last[0]
			}
		}
		closeFn()
		c.Logf("layer %s done", tg.name())
	}

	// the whole server, memory and sqlite
	for _, backend := range []string{"memory", "sqlite"} {
		var obs *obsDS
		cfg := drive.Cfg{Backend: backend, QueryCache: backend == "memory", Extra: []server.OpenFGAServiceV1Option{transportOpt()},
			WrapDS: func(in storage.OpenFGADatastore) storage.OpenFGADatastore {
				obs = newObsOver(in)
				return obs
			}}
		srv, err := drive.New(cfg)
		if err != nil {
			c.HarnessError("server: %v", err)
			return
		}
		tg := serverTarget{srv}
		nStores := 2
		var stores, cur []string
		for i := 0; i < nStores; i++ {
			st, err := srv.CreateStore(fmt.Sprintf("c17-conc-%s-%d", backend, i))
			if err != nil {
				c.HarnessError("CreateStore: %v", err)
				return
			}
			sm := &marker{Model: setupModel(), Mark: "mark0"}
			sm.finish()
			id, err := srv.WriteModel(st, setupModel())
			if err != nil {
				c.HarnessError("setup model: %v", err)
				return
			}
			registerMarker(st, id, sm)
			if err := srv.WriteTuples(st, id, baseTuples()); err != nil {
				c.HarnessError("base tuples: %v", err)
				return
			}
			stores, cur = append(stores, st), append(cur, id)
		}
		trials, rounds := c.Pick(10, 60), c.Pick(14, 50)
		if backend == "sqlite" {
			trials, rounds = c.Pick(2, 12), c.Pick(1, 8)
		}
		for trial := 0; trial < trials; trial++ {
			m := newMarker(r, trial)
			si := trial % nStores
			// register before: the id is only known afterwards, so register under every id the store reports
			directedServer(c, tg, obs, srv, stores[si], &cur[si], m, r, trial)
		}
		for round := 0; round < rounds; round++ {
			last := concurrent(c, tg, obs, srv.Cfg.Name(), stores, cur, r.Int63(), 1+round%2, 2, c.Pick(10, 16), c.Pick(30, 50), coherence)
			for i := range last {
				if last[i] != "" {
					cur[i] = last[i]
				}
			}
		}
		srv.Close()
		c.Logf("concurrent histories (%s) done", backend)
	}
}

// directedServer wraps directed for the server target: the marker of the new model is registered
// under the id the write returned so that the coherence of later answers can be judged.
func directedServer(c *vk.Ctx, tg serverTarget, obs *obsDS, srv *drive.Srv, store string, cur *string, m *marker, r *rand.Rand, trial int) {
	directed(c, regTarget{tg, m}, obs, srv.Cfg.Name(), store, *cur, m.Model, r, trial)
	a := doCheck(srv, store, "", "doc:1", "viewer", "user:a")
	if id := a.id(); id != "" {
		*cur = id
	}
}

// regTarget registers the marker under the id a write returns.
type regTarget struct {
	serverTarget
	m *marker
}

func (t regTarget) write(store string, m *openfgav1.AuthorizationModel) (string, error) {
	id, err := t.serverTarget.write(store, m)
	if err == nil {
		registerMarker(store, id, t.m)
	}
	return id, err
}

// coherence: the answer of a request must be the reference answer under the model the request
// says it resolved (the header must not lie about the model that evaluated the request).
func coherence(store, id, req, ans string) string {
	m := lookupMarker(store, id)
	if m == nil {
		return "" // id of a write whose marker is unknown (cannot happen for acknowledged writes)
	}
	want := ""
	switch {
	case strings.HasPrefix(req, "Check("):
		// Check(doc:N#probe@user:U)
		var d, u string
		rest := strings.TrimSuffix(strings.TrimPrefix(req, "Check("), ")")
		parts := strings.SplitN(rest, "#probe@", 2)
		if len(parts) != 2 {
			return ""
		}
		d, u = parts[0], parts[1]
		want = m.expectCheck(indexOf(probeUsers, u), indexOf(probeDocs, d))
	case strings.HasPrefix(req, "ListObjects("):
		u := strings.TrimSuffix(req[strings.LastIndex(req, " ")+1:], ")")
		want = "error"
		if m.HasProbe {
			want = m.Lists[u]
		}
	case strings.HasPrefix(req, "Expand("):
		want = "error"
		if m.HasProbe {
			want = m.TopKind
		}
	case strings.HasPrefix(req, "Write("):
		want = "error"
		if m.Mark == "mark0" {
			want = "ok"
		}
	default:
		return ""
	}
	if want == ans {
		return ""
	}
	return fmt.Sprintf("%s published model %s (probe = %s, fingerprint %s, mark relation %s) and answered %s; the reference answer under that model is %s", req, id, m.Probe, m.FP, m.Mark, ans, want)
}
