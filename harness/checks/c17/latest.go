package c17

import (
	"fmt"
	"math/rand"

	openfgav1 "github.com/openfga/api/proto/openfga/v1"
	"google.golang.org/protobuf/proto"

	"github.com/openfga/openfga/verifharness/drive"
	"github.com/openfga/openfga/verifharness/vk"
)

// seqStore is one store of a sequential history.
type seqStore struct {
	t       *track
	markers map[string]*marker // id -> marker
	order   []string           // ids of marker models in acknowledgement order
	k       int
	writeN  int
}

func (s *seqStore) latest() *marker { return s.markers[s.t.latest()] }

// newSeqStore creates a store, writes the setup model and the base tuples under it.
func newSeqStore(c *vk.Ctx, srv *drive.Srv, name string, lim limits) *seqStore {
	st, err := srv.CreateStore(name)
	if err != nil {
		c.HarnessError("CreateStore: %v", err)
		return nil
	}
	s := &seqStore{t: newTrack(srv, st), markers: map[string]*marker{}}
	id := s.t.write(c, setupModel(), "setup/identity#0", "accept", lim)
	if id == "" {
		c.HarnessError("setup model rejected")
		return nil
	}
	if err := srv.WriteTuples(st, id, baseTuples()); err != nil {
		c.HarnessError("base tuples: %v", drive.ErrDetail(err))
		return nil
	}
	return s
}

// judge compares one answer with the model that was the latest when the request was issued.
// latestID is the id of the last acknowledged write of the store (no write is in flight).
func judge(c *vk.Ctx, srv *drive.Srv, s *seqStore, a answer, reqDesc string, want string, wantID string, phase string) {
	c.Count("requests_"+a.Kind, 1)
	c.Evals(1)
	wit := func() map[string]any {
		var hist []map[string]string
		for _, id := range s.t.ids {
			h := map[string]string{"id": id}
			if m := s.markers[id]; m != nil {
				h["probe"], h["fingerprint"], h["mark"] = m.Probe, m.FP, m.Mark
			}
			hist = append(hist, h)
		}
		return map[string]any{"config": srv.Cfg.Name(), "store": s.t.store, "request": reqDesc, "phase": phase, "answer": a,
			"expected_model": wantID, "expected_payload": want, "acknowledged_writes": hist, "stored_tuples": tupleStrings(baseTuples())}
	}
	if a.Code == "PANIC" {
		c.Violation("", "panic|"+a.Kind, reqDesc+" panicked: "+a.Err, wit())
		return
	}
	ids := a.Resolved
	if len(ids) == 0 {
		c.Count("requests_without_model_header_"+a.Kind, 1)
	} else {
		c.Count("resolved_ids_observed", 1)
		if len(ids) > 1 {
			c.Count("requests_publishing_two_model_ids", 1)
		}
		for _, id := range ids {
			if id != wantID {
				older := "an id that was never returned by a write"
				for i, x := range s.t.ids {
					if x == id {
						older = fmt.Sprintf("the model written %d writes earlier", len(s.t.ids)-1-i)
					}
				}
				c.Violation("C17-latest-wrong-sequential", "seq-header|"+phase+"|"+a.Kind,
					fmt.Sprintf("%s [%s] resolved model %s (%s); the last acknowledged write of the store is %s and no write was in flight", reqDesc, phase, id, older, wantID), wit())
				return
			}
		}
	}
	if want == "" {
		return
	}
	if want == "error" {
		if a.Err == "" {
			c.Violation("C17-latest-wrong-sequential", "seq-answer-noerr|"+phase+"|"+a.Kind,
				fmt.Sprintf("%s [%s] succeeded (%s) although under the latest model %s the request is invalid", reqDesc, phase, a.Payload, wantID), wit())
		} else if a.Code == "Internal" || a.Code == "Unknown" {
			c.Inconclusive("request expected to fail validation failed with " + a.Code)
		}
		return
	}
	if a.Err != "" {
		c.Violation("C17-latest-wrong-sequential", "seq-answer-err|"+phase+"|"+a.Kind,
			fmt.Sprintf("%s [%s] failed (%s: %s) although under the latest model %s the reference answer is %s", reqDesc, phase, a.Code, a.Err, wantID, want), wit())
		return
	}
	if a.Payload != want {
		c.Violation("C17-latest-wrong-sequential", "seq-answer|"+phase+"|"+a.Kind,
			fmt.Sprintf("%s [%s] answered %s; the reference answer under the latest model %s is %s", reqDesc, phase, a.Payload, wantID, want), wit())
	}
}

func tupleStrings(tks []*openfgav1.TupleKey) []string {
	var out []string
	for _, t := range tks {
		out = append(out, t.GetObject()+"#"+t.GetRelation()+"@"+t.GetUser())
	}
	return out
}

// probeAll issues the model-less requests whose answers reveal the model, against store s whose
// latest model is m (id). modelArg is "" (model-less) or an explicit id.
func probeAll(c *vk.Ctx, srv *drive.Srv, s *seqStore, r *rand.Rand, m *marker, id, modelArg, phase string, full bool) {
	// the nine-check fingerprint (or a seeded third of it)
	for ui, u := range probeUsers {
		for di, d := range probeDocs {
			if !full && r.Intn(3) != 0 {
				continue
			}
			a := doCheck(srv, s.t.store, modelArg, d, "probe", u)
			judge(c, srv, s, a, fmt.Sprintf("Check(%s#probe@%s, model=%q)", d, u, modelArg), m.expectCheck(ui, di), id, phase)
		}
	}
	u := probeUsers[r.Intn(len(probeUsers))]
	wantList := "error"
	if m.HasProbe {
		wantList = m.Lists[u]
	}
	switch r.Intn(3) {
	case 0:
		a := doListObjects(srv, s.t.store, modelArg, "doc", "probe", u, false)
		judge(c, srv, s, a, fmt.Sprintf("ListObjects(doc, probe, %s, model=%q)", u, modelArg), wantList, id, phase)
	case 1:
		a := doListObjects(srv, s.t.store, modelArg, "doc", "probe", u, true)
		judge(c, srv, s, a, fmt.Sprintf("StreamedListObjects(doc, probe, %s, model=%q)", u, modelArg), wantList, id, phase)
	default:
		var items [][3]string
		want := ""
		for di, d := range probeDocs {
			items = append(items, [3]string{d, "probe", u})
			ui := indexOf(probeUsers, u)
			switch m.expectCheck(ui, di) {
			case "allowed":
				want += "T"
			case "denied":
				want += "F"
			default:
				want += "E"
			}
		}
		a := doBatchCheck(srv, s.t.store, modelArg, items)
		judge(c, srv, s, a, fmt.Sprintf("BatchCheck(doc:1..3#probe@%s, model=%q)", u, modelArg), want, id, phase)
	}
	if r.Intn(2) == 0 {
		wantKind := "error"
		if m.HasProbe {
			wantKind = m.TopKind
		}
		a := doExpand(srv, s.t.store, modelArg, "doc:1", "probe")
		judge(c, srv, s, a, fmt.Sprintf("Expand(doc:1#probe, model=%q)", modelArg), wantKind, id, phase)
	}
	if r.Intn(3) == 0 {
		a := doListUsers(srv, s.t.store, modelArg, "doc:1", "probe")
		want := ""
		if !m.HasProbe {
			want = "error"
		}
		judge(c, srv, s, a, fmt.Sprintf("ListUsers(doc:1#probe, user, model=%q)", modelArg), want, id, phase)
	}
}

func indexOf(xs []string, x string) int {
	for i, y := range xs {
		if y == x {
			return i
		}
	}
	return -1
}

// sequential runs one sequential history on one server: stores interleaved, each store receiving a
// sequence of marker models; after every acknowledged write the model-less requests must resolve and
// be answered under exactly that model.
func sequential(c *vk.Ctx, srv *drive.Srv, tag string, nStores, steps int, lim limits) {
	r := c.Rand("seq|" + tag)
	var stores []*seqStore
	for i := 0; i < nStores; i++ {
		s := newSeqStore(c, srv, fmt.Sprintf("c17-seq-%s-%d", tag, i), lim)
		if s == nil {
			return
		}
		stores = append(stores, s)
	}
	muts := mutations()
	total := nStores * steps
	for step := 0; step < total; step++ {
		s := stores[r.Intn(len(stores))]
		// sometimes a rejected write first: it must not disturb the latest model
		if r.Intn(4) == 0 {
			bad := proto.Clone(newMarker(r, s.k).Model).(*openfgav1.AuthorizationModel)
			var mu mutation
			for {
				mu = muts[r.Intn(len(muts))]
				if mu.want == "reject" {
					break
				}
			}
			if mu.apply(r, bad, lim) {
				s.t.write(c, bad, fmt.Sprintf("marker/%s#seq%d", mu.name, step), "reject", lim)
				if m := s.latest(); m != nil {
					probeAll(c, srv, s, r, m, s.t.latest(), "", "after-rejected-write", false)
				}
			}
		}
		// the next model of this store: fingerprint different from the previous two
		var avoid []string
		for i := len(s.order) - 1; i >= 0 && i >= len(s.order)-2; i-- {
			avoid = append(avoid, s.markers[s.order[i]].FP)
		}
		m := nextMarker(r, s.k, avoid...)
		id := s.t.write(c, m.Model, fmt.Sprintf("marker/identity#seq%d", step), "accept", lim)
		if id == "" {
			continue
		}
		s.markers[id] = m
		s.order = append(s.order, id)
		s.k++
		prevFP := "-"
		if len(avoid) > 0 {
			prevFP = avoid[0]
		}
		c.Case(fmt.Sprintf("latest|%s|probe=%s|fp=%s|prev=%s", srv.Cfg.Name(), m.Probe, m.FP, prevFP), true)
		c.Seen("marker_fingerprints", m.FP)
		c.Seen("probe_rewrites", m.Probe)

		// immediately: model-less requests
		probeAll(c, srv, s, r, m, id, "", "right-after-write", true)
		// model-less Write: the mark relation of the latest model is writable, the previous one is not
		s.writeN++
		obj := fmt.Sprintf("doc:w%d", s.writeN)
		a := doWriteTuple(srv, s.t.store, "", obj, m.Mark, "user:a")
		judge(c, srv, s, a, fmt.Sprintf("Write(%s#%s@user:a, model=\"\")", obj, m.Mark), "ok", id, "right-after-write")
		other := fmt.Sprintf("mark%d", (s.k+1)%3) // s.k was incremented above, so this is mark<(k-1) mod 3>: the mark relation of the PREVIOUS model
		if other != m.Mark {
			a = doWriteTuple(srv, s.t.store, "", obj, other, "user:b")
			judge(c, srv, s, a, fmt.Sprintf("Write(%s#%s@user:b, model=\"\")", obj, other), "error", id, "right-after-write")
		}
		// a second round with every cache warm
		probeAll(c, srv, s, r, m, id, "", "second-round-caches-warm", false)
		// another store must be unaffected
		if o := stores[r.Intn(len(stores))]; o != s && o.latest() != nil {
			probeAll(c, srv, o, r, o.latest(), o.t.latest(), "", "other-store-after-foreign-write", false)
		}
		// an explicit older model id keeps its own semantics
		if len(s.order) > 1 && r.Intn(2) == 0 {
			oid := s.order[r.Intn(len(s.order)-1)]
			probeAll(c, srv, s, r, s.markers[oid], oid, oid, "explicit-older-model", false)
			// ... and does not disturb the latest
			probeAll(c, srv, s, r, m, id, "", "after-explicit-older-model", false)
		}
		if step%15 == 14 {
			s.t.verify(c, r, fmt.Sprintf("sequential history step %d", step), 4)
		}
		c.SampleEvery(step+1, total/2, func() any {
			return map[string]any{"part": "sequential latest", "config": srv.Cfg.Name(), "store": s.t.store, "write_no": len(s.t.ids),
				"model_id": id, "probe": m.Probe, "fingerprint": m.FP, "previous_fingerprint": prevFP, "mark_relation": m.Mark}
		})
	}
	for _, s := range stores {
		s.t.verify(c, r, "end of sequential history", 12)
		if m := s.latest(); m != nil {
			probeAll(c, srv, s, r, m, s.t.latest(), "", "end-of-history", true)
		}
	}
}
