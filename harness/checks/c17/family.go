package c17

import (
	"fmt"
	"math/rand"
	"sort"
	"strings"

	openfgav1 "github.com/openfga/api/proto/openfga/v1"

	"github.com/openfga/openfga/verifharness/gen"
	"github.com/openfga/openfga/verifharness/ref"
)

// The "marker" family: models over a fixed vocabulary whose relation doc#probe is a seeded rewrite
// over viewer / editor / owner / viewer-from-parent, so that the vector of answers to nine fixed
// Check requests (the fingerprint, computed by the reference semantics) tells models apart. Every
// model k additionally defines the directly assignable relation doc#mark<k mod 3>, so that a
// model-less Write of a mark tuple reveals which model validated it.

var (
	probeUsers = []string{"user:a", "user:b", "user:c"}
	probeDocs  = []string{"doc:1", "doc:2", "doc:3"}
)

func tk(o, r, u string) *openfgav1.TupleKey {
	return &openfgav1.TupleKey{Object: o, Relation: r, User: u}
}

// baseTuples are written once per store (under the setup model) and never change afterwards.
func baseTuples() []*openfgav1.TupleKey {
	return []*openfgav1.TupleKey{
		tk("doc:1", "viewer", "user:a"),
		tk("doc:1", "editor", "user:b"),
		tk("doc:1", "viewer", "user:c"),
		tk("doc:1", "editor", "user:c"),
		tk("doc:1", "owner", "user:c"),
		tk("doc:2", "owner", "user:a"),
		tk("doc:2", "viewer", "group:g#member"),
		tk("group:g", "member", "user:b"),
		tk("doc:2", "parent", "folder:x"),
		tk("folder:x", "viewer", "user:c"),
		tk("doc:2", "editor", "user:c"),
		tk("doc:3", "parent", "folder:y"),
		tk("folder:y", "viewer", "user:a"),
		tk("doc:3", "editor", "user:a"),
		tk("doc:3", "owner", "user:b"),
		tk("doc:3", "editor", "group:g#member"), // valid only while editor admits group#member
		tk("doc:3", "viewer", "user:c"),
	}
}

func uThis() *openfgav1.Userset {
	return &openfgav1.Userset{Userset: &openfgav1.Userset_This{This: &openfgav1.DirectUserset{}}}
}
func uComputed(rel string) *openfgav1.Userset {
	return &openfgav1.Userset{Userset: &openfgav1.Userset_ComputedUserset{ComputedUserset: &openfgav1.ObjectRelation{Relation: rel}}}
}
func uTTU(tupleset, rel string) *openfgav1.Userset {
	return &openfgav1.Userset{Userset: &openfgav1.Userset_TupleToUserset{TupleToUserset: &openfgav1.TupleToUserset{
		Tupleset: &openfgav1.ObjectRelation{Relation: tupleset}, ComputedUserset: &openfgav1.ObjectRelation{Relation: rel}}}}
}
func uUnion(ch ...*openfgav1.Userset) *openfgav1.Userset {
	return &openfgav1.Userset{Userset: &openfgav1.Userset_Union{Union: &openfgav1.Usersets{Child: ch}}}
}
func uInter(ch ...*openfgav1.Userset) *openfgav1.Userset {
	return &openfgav1.Userset{Userset: &openfgav1.Userset_Intersection{Intersection: &openfgav1.Usersets{Child: ch}}}
}
func uDiff(b, s *openfgav1.Userset) *openfgav1.Userset {
	return &openfgav1.Userset{Userset: &openfgav1.Userset_Difference{Difference: &openfgav1.Difference{Base: b, Subtract: s}}}
}

func direct(td *openfgav1.TypeDefinition, rel string, refs ...*openfgav1.RelationReference) {
	td.Relations[rel] = uThis()
	td.Metadata.Relations[rel] = &openfgav1.RelationMetadata{DirectlyRelatedUserTypes: refs}
}

func newTD(name string) *openfgav1.TypeDefinition {
	return &openfgav1.TypeDefinition{Type: name, Relations: map[string]*openfgav1.Userset{}, Metadata: &openfgav1.Metadata{Relations: map[string]*openfgav1.RelationMetadata{}}}
}

// marker is one member of the family.
type marker struct {
	Model    *openfgav1.AuthorizationModel
	Ref      *ref.Model
	Mark     string // name of the mark relation this model defines
	HasProbe bool
	Probe    string            // rendering of the probe rewrite
	FP       string            // fingerprint: 9 letters T/F (users outer, docs inner) or "noprobe"
	Lists    map[string]string // user -> canonical list of docs with probe
	TopKind  string            // expected kind of the root of Expand(doc:1#probe)
}

// skeleton builds the part every marker model shares.
func skeleton(markRels []string, editorGroups bool) (*openfgav1.AuthorizationModel, *openfgav1.TypeDefinition) {
	user := &openfgav1.TypeDefinition{Type: "user"}
	group := newTD("group")
	direct(group, "member", gen.Ref("user", "", false, ""))
	folder := newTD("folder")
	direct(folder, "viewer", gen.Ref("user", "", false, ""))
	doc := newTD("doc")
	direct(doc, "parent", gen.Ref("folder", "", false, ""))
	direct(doc, "viewer", gen.Ref("user", "", false, ""), gen.Ref("group", "member", false, ""))
	if editorGroups {
		direct(doc, "editor", gen.Ref("user", "", false, ""), gen.Ref("group", "member", false, ""))
	} else {
		direct(doc, "editor", gen.Ref("user", "", false, ""))
	}
	direct(doc, "owner", gen.Ref("user", "", false, ""))
	for _, m := range markRels {
		direct(doc, m, gen.Ref("user", "", false, ""))
	}
	return &openfgav1.AuthorizationModel{SchemaVersion: "1.1", TypeDefinitions: []*openfgav1.TypeDefinition{user, group, folder, doc}}, doc
}

// setupModel admits every base tuple and every mark relation.
func setupModel() *openfgav1.AuthorizationModel {
	m, _ := skeleton([]string{"mark0", "mark1", "mark2"}, true)
	return m
}

var probeLeaves = []struct {
	name string
	mk   func() *openfgav1.Userset
}{
	{"viewer", func() *openfgav1.Userset { return uComputed("viewer") }},
	{"editor", func() *openfgav1.Userset { return uComputed("editor") }},
	{"owner", func() *openfgav1.Userset { return uComputed("owner") }},
	{"viewer from parent", func() *openfgav1.Userset { return uTTU("parent", "viewer") }},
}

// genProbe draws a rewrite of depth <= depth with pairwise distinct leaves.
func genProbe(r *rand.Rand, depth int, used map[int]bool) (*openfgav1.Userset, string) {
	free := []int{}
	for i := range probeLeaves {
		if !used[i] {
			free = append(free, i)
		}
	}
	if depth == 0 || len(free) < 2 || r.Intn(5) == 0 {
		i := free[r.Intn(len(free))]
		used[i] = true
		return probeLeaves[i].mk(), probeLeaves[i].name
	}
	a, as := genProbe(r, depth-1, used)
	rest := 0
	for i := range probeLeaves {
		if !used[i] {
			rest++
		}
	}
	if rest == 0 {
		return a, as
	}
	b, bs := genProbe(r, depth-1, used)
	switch r.Intn(3) {
	case 0:
		return uUnion(a, b), "(" + as + " or " + bs + ")"
	case 1:
		return uInter(a, b), "(" + as + " and " + bs + ")"
	}
	return uDiff(a, b), "(" + as + " but not " + bs + ")"
}

func kindOf(us *openfgav1.Userset, object string) string {
	switch u := us.GetUserset().(type) {
	case *openfgav1.Userset_Union:
		return "union"
	case *openfgav1.Userset_Intersection:
		return "intersection"
	case *openfgav1.Userset_Difference:
		return "difference"
	case *openfgav1.Userset_ComputedUserset:
		return "computed:" + object + "#" + u.ComputedUserset.GetRelation()
	case *openfgav1.Userset_TupleToUserset:
		return "ttu:" + object + "#" + u.TupleToUserset.GetTupleset().GetRelation()
	case *openfgav1.Userset_This:
		return "this"
	}
	return "?"
}

// newMarker draws the k-th model of a store's sequence.
func newMarker(r *rand.Rand, k int) *marker {
	mark := fmt.Sprintf("mark%d", k%3)
	model, doc := skeleton([]string{mark}, r.Intn(2) == 0)
	m := &marker{Model: model, Mark: mark, Lists: map[string]string{}}
	if r.Intn(8) != 0 {
		us, s := genProbe(r, 2, map[int]bool{})
		doc.Relations["probe"] = us
		m.HasProbe, m.Probe, m.TopKind = true, s, kindOf(us, "doc:1")
	} else {
		m.Probe = "(none)"
	}
	m.finish()
	return m
}

// finish computes the reference fingerprint.
func (m *marker) finish() {
	m.Ref = ref.NewModel(m.Model, ref.TemplateCondEval)
	if !m.HasProbe {
		m.FP = "noprobe"
		return
	}
	rc := ref.NewCase(m.Ref, baseTuples(), nil)
	var sb strings.Builder
	for _, u := range probeUsers {
		res := rc.Eval(u)
		var docs []string
		for _, d := range probeDocs {
			k := res.K(d, "probe")
			sb.WriteString(k.String())
			if k == ref.T {
				docs = append(docs, d)
			}
		}
		m.Lists[u] = canonList(docs)
	}
	m.FP = sb.String()
}

// expectCheck is the reference answer for Check(doc d, probe, user u) under this model.
func (m *marker) expectCheck(ui, di int) string {
	if !m.HasProbe {
		return "error"
	}
	if m.FP[ui*len(probeDocs)+di] == 'T' {
		return "allowed"
	}
	return "denied"
}

func canonList(xs []string) string {
	ys := append([]string{}, xs...)
	sort.Strings(ys)
	return "[" + strings.Join(ys, ",") + "]"
}

// nextMarker draws models until the fingerprint differs from the avoid list (the previous models of
// the store), so that the answers alone reveal a resolution to an older model.
func nextMarker(r *rand.Rand, k int, avoid ...string) *marker {
	var m *marker
	for try := 0; try < 200; try++ {
		m = newMarker(r, k)
		ok := true
		for _, a := range avoid {
			if a == m.FP {
				ok = false
			}
		}
		if ok {
			return m
		}
	}
	return m
}
