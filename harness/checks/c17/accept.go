package c17

import (
	"context"
	"fmt"
	"math/rand"
	"sort"
	"strings"

	"github.com/oklog/ulid/v2"
	openfgav1 "github.com/openfga/api/proto/openfga/v1"
	"google.golang.org/protobuf/encoding/protojson"
	"google.golang.org/protobuf/proto"
	"google.golang.org/protobuf/types/known/wrapperspb"

	"github.com/openfga/openfga/pkg/typesystem"
	"github.com/openfga/openfga/verifharness/drive"
	"github.com/openfga/openfga/verifharness/gen"
	"github.com/openfga/openfga/verifharness/vk"
)

// track is the sequential specification of one store's model history: the accepted models in
// acknowledgement order, each with a private deep copy of what the caller supplied.
type track struct {
	srv   *drive.Srv
	store string
	ids   []string
	want  map[string]*openfgav1.AuthorizationModel
	sameM int // consecutive accepted writes whose ids share the millisecond
}

func newTrack(srv *drive.Srv, store string) *track {
	return &track{srv: srv, store: store, want: map[string]*openfgav1.AuthorizationModel{}}
}

func (t *track) latest() string {
	if len(t.ids) == 0 {
		return ""
	}
	return t.ids[len(t.ids)-1]
}

func modelJSON(m *openfgav1.AuthorizationModel) string {
	b, err := protojson.Marshal(m)
	if err != nil {
		return "unmarshalable: " + err.Error()
	}
	if len(b) > 6000 {
		return string(b[:6000]) + "…"
	}
	return string(b)
}

// validatorVerdict is the definition of acceptance: the model validator on the model the write path
// would store, plus the request schema (API contract) and the documented limits.
type verdict struct {
	Accept    bool   `json:"accept"`
	Reason    string `json:"reason"`
	Validator string `json:"validator_error,omitempty"`
}

func define(m *openfgav1.AuthorizationModel, store string, lim limits) verdict {
	req := &openfgav1.WriteAuthorizationModelRequest{StoreId: store, SchemaVersion: m.GetSchemaVersion(), TypeDefinitions: m.GetTypeDefinitions(), Conditions: m.GetConditions()}
	if err := req.Validate(); err != nil {
		return verdict{false, "request schema: " + err.Error(), ""}
	}
	if len(m.GetTypeDefinitions()) > lim.maxTypes {
		return verdict{false, fmt.Sprintf("%d type definitions > limit %d", len(m.GetTypeDefinitions()), lim.maxTypes), ""}
	}
	if s := sizeOf(m); s > lim.maxSize {
		return verdict{false, fmt.Sprintf("size %d > limit %d", s, lim.maxSize), ""}
	}
	stored := &openfgav1.AuthorizationModel{Id: dummyID, SchemaVersion: m.GetSchemaVersion(), TypeDefinitions: m.GetTypeDefinitions(), Conditions: m.GetConditions()}
	if stored.SchemaVersion == "" {
		stored.SchemaVersion = typesystem.SchemaVersion1_1
	}
	var verr error
	if perr := drive.Guard(func() error { _, verr = typesystem.NewAndValidate(context.Background(), stored); return nil }); perr != nil {
		return verdict{false, "validator panicked", perr.Error()}
	}
	if verr != nil {
		return verdict{false, "model validation", verr.Error()}
	}
	return verdict{true, "valid", ""}
}

// write sends a private copy of m and judges acceptance, identifier order and (on rejection) that
// nothing was stored. want is "accept" / "reject" / "" (known from the documented rules or not).
// It returns the id ("" when rejected).
func (t *track) write(c *vk.Ctx, m *openfgav1.AuthorizationModel, label, want string, lim limits) string {
	orig := proto.Clone(m).(*openfgav1.AuthorizationModel)
	v := define(orig, t.store, lim)
	if want == "limit" {
		want = ""
		if ok := len(orig.GetTypeDefinitions()) <= lim.maxTypes && sizeOf(orig) <= lim.maxSize; !ok {
			want = "reject"
		}
	}
	sent := proto.Clone(m).(*openfgav1.AuthorizationModel)
	ctx, _ := newCtx()
	var id string
	err := drive.Guard(func() error {
		resp, err := t.srv.S.WriteAuthorizationModel(ctx, &openfgav1.WriteAuthorizationModelRequest{StoreId: t.store,
			SchemaVersion: sent.GetSchemaVersion(), TypeDefinitions: sent.GetTypeDefinitions(), Conditions: sent.GetConditions()})
		if err != nil {
			return err
		}
		id = resp.GetAuthorizationModelId()
		return nil
	})
	code := drive.CodeOf(err)
	wit := func() map[string]any {
		return map[string]any{"backend": t.srv.Cfg.Name(), "case": label, "model": modelJSON(orig), "definition": v,
			"rpc_error": drive.ErrDetail(err), "rpc_code": code, "returned_id": id, "earlier_ids": t.ids, "limits": fmt.Sprintf("%+v", lim)}
	}
	outcome := "accepted"
	if err != nil {
		outcome = "rejected:" + code
	}
	c.Seen("write_outcomes", outcome)
	c.Count("model_writes", 1)
	kind := label
	if i := strings.Index(kind, "#"); i >= 0 {
		kind = kind[:i]
	}
	c.Case(fmt.Sprintf("write|%s|%s|%s|%s", t.srv.Cfg.Backend, kind, outcome, v.Reason[:min(len(v.Reason), 14)]), true)
	if code == "PANIC" {
		c.Violation("", "write-panic|"+kind, "WriteAuthorizationModel panicked: "+err.Error(), wit())
		return ""
	}
	if err == nil && !v.Accept {
		c.Violation("C17-invalid-model-accepted", "accepted-invalid|"+kind+"|"+v.Reason[:min(len(v.Reason), 14)],
			fmt.Sprintf("WriteAuthorizationModel accepted (id %s) a model that fails its definition of acceptance: %s %s", id, v.Reason, v.Validator), wit())
	}
	if err != nil && v.Accept {
		c.Violation("C17-valid-model-rejected", "rejected-valid|"+kind+"|"+code,
			fmt.Sprintf("WriteAuthorizationModel rejected (%s) a model that passes model validation and the documented limits: %s", code, drive.ErrDetail(err)), wit())
	}
	if want == "reject" && err == nil {
		c.Violation("C17-known-invalid-model-accepted", "accepted-known-invalid|"+kind,
			fmt.Sprintf("WriteAuthorizationModel accepted (id %s) a model that the documented modelling rules make invalid (%s)", id, label), wit())
	}
	if want == "accept" && err != nil {
		c.Violation("C17-known-valid-model-rejected", "rejected-known-valid|"+kind,
			fmt.Sprintf("WriteAuthorizationModel rejected a model that is valid by the documented modelling rules (%s): %s", label, drive.ErrDetail(err)), wit())
	}
	if err != nil {
		c.Count("writes_rejected", 1)
		if code == "Internal" || code == "Unknown" {
			c.Count("writes_rejected_with_internal_error", 1)
		}
		after := t.listIDs(c, 100)
		before := make([]string, 0, len(t.ids))
		for i := len(t.ids) - 1; i >= 0; i-- {
			before = append(before, t.ids[i])
		}
		sa, sb := append([]string{}, after...), append([]string{}, before...)
		sort.Strings(sa)
		sort.Strings(sb)
		if strings.Join(sb, ",") != strings.Join(sa, ",") { // as a set: the order of the listing is judged by verify

			c.Violation("C17-rejected-write-stored-something", "rejected-stored|"+kind,
				fmt.Sprintf("after a rejected WriteAuthorizationModel the stored models are %v; the accepted writes so far are %v", after, before), wit())
		}
		c.Count("rejected_writes_checked_store_unchanged", 1)
		return ""
	}
	c.Count("writes_accepted", 1)
	t.accept(c, id, orig, wit)
	return id
}

// accept registers an acknowledged write and checks the identifier.
func (t *track) accept(c *vk.Ctx, id string, orig *openfgav1.AuthorizationModel, wit func() map[string]any) {
	if _, err := ulid.ParseStrict(id); err != nil {
		c.Violation("C17-bad-identifier", "id-not-ulid", fmt.Sprintf("WriteAuthorizationModel returned %q which is not a ULID: %v", id, err), wit())
	}
	if _, dup := t.want[id]; dup {
		c.Violation("C17-identifier-reused", "id-dup", fmt.Sprintf("WriteAuthorizationModel returned id %s a second time in store %s", id, t.store), wit())
	}
	if prev := t.latest(); prev != "" {
		c.Count("id_order_pairs_checked", 1)
		if !(id > prev) {
			c.Violation("C17-identifier-not-increasing", "id-order",
				fmt.Sprintf("WriteAuthorizationModel returned id %s which is not greater than the earlier id %s of the same store", id, prev), wit())
		}
		if len(id) == 26 && len(prev) == 26 && id[:10] == prev[:10] {
			t.sameM++
			c.Count("consecutive_ids_in_same_millisecond", 1)
		}
	}
	exp := &openfgav1.AuthorizationModel{Id: id, SchemaVersion: orig.GetSchemaVersion(), TypeDefinitions: orig.GetTypeDefinitions(), Conditions: orig.GetConditions()}
	if exp.SchemaVersion == "" {
		exp.SchemaVersion = typesystem.SchemaVersion1_1
	}
	t.ids = append(t.ids, id)
	t.want[id] = exp
}

// equalModel compares a model read back with what the caller supplied: id, schema version, type
// definitions and conditions (an absent and an empty conditions map are the same thing).
func equalModel(got, want *openfgav1.AuthorizationModel) bool {
	if proto.Equal(got, want) {
		return true
	}
	if got.GetId() != want.GetId() || got.GetSchemaVersion() != want.GetSchemaVersion() {
		return false
	}
	if len(got.GetTypeDefinitions()) != len(want.GetTypeDefinitions()) || len(got.GetConditions()) != len(want.GetConditions()) {
		return false
	}
	for i := range want.GetTypeDefinitions() {
		if !proto.Equal(got.GetTypeDefinitions()[i], want.GetTypeDefinitions()[i]) {
			return false
		}
	}
	for k, v := range want.GetConditions() {
		if !proto.Equal(got.GetConditions()[k], v) {
			return false
		}
	}
	return true
}

// readOne checks ReadAuthorizationModel(id) against the copy taken at write time.
func (t *track) readOne(c *vk.Ctx, id, when string) {
	ctx, _ := newCtx()
	var got *openfgav1.AuthorizationModel
	err := drive.Guard(func() error {
		resp, err := t.srv.S.ReadAuthorizationModel(ctx, &openfgav1.ReadAuthorizationModelRequest{StoreId: t.store, Id: id})
		if err != nil {
			return err
		}
		got = resp.GetAuthorizationModel()
		return nil
	})
	c.Count("model_reads_by_id", 1)
	c.Evals(1)
	want := t.want[id]
	wit := map[string]any{"backend": t.srv.Cfg.Name(), "store": t.store, "id": id, "when": when, "written": modelJSON(want), "history": t.ids}
	if err != nil {
		wit["error"] = drive.ErrDetail(err)
		c.Violation("C17-written-model-unreadable", "read-error|"+drive.CodeOf(err),
			fmt.Sprintf("ReadAuthorizationModel(%s) fails (%s) although the write was acknowledged [%s]", id, drive.ErrDetail(err), when), wit)
		return
	}
	if !equalModel(got, want) {
		wit["read"] = modelJSON(got)
		c.Violation("C17-model-changed", "read-differs|"+t.srv.Cfg.Backend,
			fmt.Sprintf("ReadAuthorizationModel(%s) returns a model different from the one written [%s]", id, when), wit)
	}
}

// listIDs pages through ReadAuthorizationModels and returns the ids in listing order.
func (t *track) listIDs(c *vk.Ctx, pageSize int) []string {
	ms := t.list(c, pageSize)
	out := make([]string, 0, len(ms))
	for _, m := range ms {
		out = append(out, m.GetId())
	}
	return out
}

func (t *track) list(c *vk.Ctx, pageSize int) []*openfgav1.AuthorizationModel {
	var out []*openfgav1.AuthorizationModel
	token := ""
	for page := 0; page < 100000; page++ {
		ctx, _ := newCtx()
		var resp *openfgav1.ReadAuthorizationModelsResponse
		err := drive.Guard(func() error {
			var err error
			resp, err = t.srv.S.ReadAuthorizationModels(ctx, &openfgav1.ReadAuthorizationModelsRequest{StoreId: t.store,
				PageSize: wrapperspb.Int32(int32(pageSize)), ContinuationToken: token})
			return err
		})
		if err != nil {
			c.Violation("C17-model-list-fails", "list-error|"+drive.CodeOf(err), "ReadAuthorizationModels fails: "+drive.ErrDetail(err),
				map[string]any{"backend": t.srv.Cfg.Name(), "store": t.store, "page_size": pageSize, "token": token})
			return out
		}
		if len(resp.GetAuthorizationModels()) > pageSize {
			c.Violation("C17-model-list-page-too-long", "list-page", fmt.Sprintf("ReadAuthorizationModels returned %d models for page size %d", len(resp.GetAuthorizationModels()), pageSize),
				map[string]any{"backend": t.srv.Cfg.Name(), "store": t.store})
		}
		out = append(out, resp.GetAuthorizationModels()...)
		token = resp.GetContinuationToken()
		if token == "" {
			return out
		}
	}
	return out
}

// verify checks the immutability clause at one point of the history: a seeded sample of ids (always
// including the oldest and the newest) read one by one, and the paged listing against the history.
func (t *track) verify(c *vk.Ctx, r *rand.Rand, when string, sample int) {
	if len(t.ids) == 0 {
		return
	}
	pickIDs := map[string]bool{t.ids[0]: true, t.latest(): true}
	for i := 0; i < sample; i++ {
		pickIDs[t.ids[r.Intn(len(t.ids))]] = true
	}
	var ids []string
	for id := range pickIDs {
		ids = append(ids, id)
	}
	sort.Strings(ids)
	for _, id := range ids {
		t.readOne(c, id, when)
	}
	ps := 1 + r.Intn(12)
	if r.Intn(3) == 0 {
		ps = 100
	}
	got := t.list(c, ps)
	c.Count("model_list_sweeps", 1)
	c.Evals(1)
	want := make([]string, 0, len(t.ids))
	for i := len(t.ids) - 1; i >= 0; i-- {
		want = append(want, t.ids[i])
	}
	var gotIDs []string
	for _, m := range got {
		gotIDs = append(gotIDs, m.GetId())
	}
	wit := map[string]any{"backend": t.srv.Cfg.Name(), "store": t.store, "page_size": ps, "when": when, "listed": gotIDs, "accepted_newest_first": want}
	if strings.Join(gotIDs, ",") != strings.Join(want, ",") {
		c.Violation("C17-model-list-wrong", "list-differs|"+t.srv.Cfg.Backend,
			fmt.Sprintf("ReadAuthorizationModels (page size %d) does not list exactly the accepted models newest first [%s]", ps, when), wit)
		return
	}
	for _, m := range got {
		if !equalModel(m, t.want[m.GetId()]) {
			wit["id"] = m.GetId()
			wit["written"] = modelJSON(t.want[m.GetId()])
			wit["read"] = modelJSON(m)
			c.Violation("C17-model-changed", "list-model-differs|"+t.srv.Cfg.Backend,
				fmt.Sprintf("ReadAuthorizationModels lists model %s with content different from the one written [%s]", m.GetId(), when), wit)
			return
		}
	}
}

// ---- part A: acceptance <=> validation ----

func acceptance(c *vk.Ctx, srv *drive.Srv, tag string, n int, lim limits) {
	r := c.Rand("accept|" + tag)
	var tracks []*track
	for i := 0; i < 2; i++ {
		st, err := srv.CreateStore(fmt.Sprintf("c17-acc-%s-%d", tag, i))
		if err != nil {
			c.HarnessError("CreateStore: %v", err)
			return
		}
		tracks = append(tracks, newTrack(srv, st))
	}
	muts := mutations()
	for i := 0; i < n; i++ {
		t := tracks[r.Intn(len(tracks))]
		// base model
		var base *openfgav1.AuthorizationModel
		baseKind := "marker"
		if r.Intn(2) == 0 {
			gc := gen.NewCase(r, fmt.Sprintf("acc-%d", i), gen.Options{})
			base, baseKind = gc.Model, "gen"
		} else {
			base = newMarker(r, i).Model
		}
		base = proto.Clone(base).(*openfgav1.AuthorizationModel)
		baseValid := define(base, t.store, lim).Accept
		mu := muts[0]
		if baseValid {
			switch {
			case i < len(muts):
				mu = muts[i] // every kind at least once
			case r.Intn(10) < 7:
				mu = muts[r.Intn(len(muts))]
			}
		}
		want := mu.want
		if !baseValid {
			mu, want = muts[0], ""
			c.Count("generated_models_invalid_as_drawn", 1)
		} else if baseKind == "gen" {
			c.Count("generated_models_valid_as_drawn", 1)
		}
		if !mu.apply(r, base, lim) {
			c.Count("mutation_not_applicable", 1)
			continue
		}
		if mu.name == "identity" && baseKind == "marker" {
			want = "accept"
		}
		if want != "" {
			c.Count("writes_with_validity_known_by_construction", 1)
		}
		c.Seen("mutation_kinds", mu.name)
		label := fmt.Sprintf("%s/%s#%d", baseKind, mu.name, i)
		t.write(c, base, label, want, lim)
		if i%20 == 19 {
			t.verify(c, r, fmt.Sprintf("acceptance sequence, after %d writes", i+1), 3)
		}
		c.SampleEvery(i+1, n/2, func() any {
			return map[string]any{"part": "acceptance", "backend": srv.Cfg.Name(), "case": label, "definition": define(base, t.store, lim), "model": modelJSON(base)}
		})
	}
	for _, t := range tracks {
		t.verify(c, r, "end of acceptance sequence", 10)
		// second pass: same reads served by the warm model cache
		t.verify(c, r, "end of acceptance sequence, model cache warm", 10)
	}
}

// ---- part B: identifiers in a tight loop ----

func tightLoop(c *vk.Ctx, srv *drive.Srv, tag string, n int, lim limits) {
	st, err := srv.CreateStore("c17-tight-" + tag)
	if err != nil {
		c.HarnessError("CreateStore: %v", err)
		return
	}
	t := newTrack(srv, st)
	tiny := &openfgav1.AuthorizationModel{SchemaVersion: "1.1", TypeDefinitions: []*openfgav1.TypeDefinition{{Type: "user"}}}
	// the light-weight path: no listing between writes, so that several writes land in one millisecond
	for i := 0; i < n; i++ {
		sent := proto.Clone(tiny).(*openfgav1.AuthorizationModel)
		id, err := srv.WriteModel(st, sent)
		c.Count("model_writes", 1)
		if err != nil {
			c.Violation("C17-known-valid-model-rejected", "tiny-rejected", "the one-type model was rejected: "+drive.ErrDetail(err), map[string]any{"backend": srv.Cfg.Name()})
			return
		}
		t.accept(c, id, tiny, func() map[string]any {
			return map[string]any{"backend": srv.Cfg.Name(), "part": "tight loop", "i": i, "ids": t.ids}
		})
	}
	c.Case(fmt.Sprintf("tightloop|%s|same-ms=%v", srv.Cfg.Backend, t.sameM > 0), true)
	r := c.Rand("tight|" + tag)
	t.verify(c, r, "after tight loop", 10)
	// latest after a burst within one millisecond
	a := doCheck(srv, st, "", "user:x", "nothing", "user:a")
	if id := a.id(); id != "" && id != t.latest() {
		c.Violation("C17-latest-wrong-sequential", "tight-latest|"+srv.Cfg.Backend,
			fmt.Sprintf("after a burst of writes the model-less request resolved %s, the last acknowledged write is %s", id, t.latest()),
			map[string]any{"backend": srv.Cfg.Name(), "ids": t.ids, "answer": a})
	} else if id != "" {
		c.Count("latest_after_burst_checked", 1)
	}
}
