package c17

import (
	"context"
	"strings"
	"sync"

	openfgav1 "github.com/openfga/api/proto/openfga/v1"
	"google.golang.org/grpc"
	"google.golang.org/grpc/metadata"

	"github.com/openfga/openfga/pkg/gateway"
	"github.com/openfga/openfga/pkg/logger"
	"github.com/openfga/openfga/pkg/server"
	"github.com/openfga/openfga/verifharness/drive"
)

// hdrKey is the response header through which the server publishes the model a request resolved to.
var hdrKey = strings.ToLower(server.AuthorizationModelIDHeader)

// rec is a grpc.ServerTransportStream that records the response headers of ONE request. The server
// is built with the production gateway.RPCTransport, which publishes headers with grpc.SetHeader.
type rec struct {
	mu  sync.Mutex
	ids []string
}

func (h *rec) Method() string { return "/openfga.v1.OpenFGAService/c17" }
func (h *rec) add(md metadata.MD) {
	h.mu.Lock()
	h.ids = append(h.ids, md.Get(hdrKey)...)
	h.mu.Unlock()
}
func (h *rec) SetHeader(md metadata.MD) error  { h.add(md); return nil }
func (h *rec) SendHeader(md metadata.MD) error { h.add(md); return nil }
func (h *rec) SetTrailer(md metadata.MD) error { return nil }

// resolved returns the model ids published during the request (in order, consecutive repeats folded).
func (h *rec) resolved() []string {
	h.mu.Lock()
	defer h.mu.Unlock()
	var out []string
	for _, id := range h.ids {
		if len(out) == 0 || out[len(out)-1] != id {
			out = append(out, id)
		}
	}
	return out
}

// last is the id a client would act upon ("" when the request published none).
func (h *rec) last() string {
	r := h.resolved()
	if len(r) == 0 {
		return ""
	}
	return r[len(r)-1]
}

func newCtx() (context.Context, *rec) {
	h := &rec{}
	return grpc.NewContextWithServerTransportStream(context.Background(), h), h
}

// transportOpt makes the server publish response headers the way the production binary does.
func transportOpt() server.OpenFGAServiceV1Option {
	return server.WithTransport(gateway.NewRPCTransport(logger.NewNoopLogger()))
}

// ---- model-less (or explicit-model) requests with header capture ----

// answer of one request: the resolved ids, and a canonical rendering of the payload.
type answer struct {
	Kind     string   `json:"kind"`
	Resolved []string `json:"resolved_model_ids"`
	Payload  string   `json:"payload"` // "allowed" / "denied" / sorted list / tree kind / "ok"
	Code     string   `json:"error_code,omitempty"`
	Err      string   `json:"error,omitempty"`
	Panic    string   `json:"panic,omitempty"`
}

func (a answer) id() string {
	if len(a.Resolved) == 0 {
		return ""
	}
	return a.Resolved[len(a.Resolved)-1]
}

func finish(kind string, h *rec, payload string, err error) answer {
	a := answer{Kind: kind, Resolved: h.resolved(), Payload: payload}
	if err != nil {
		a.Code = drive.CodeOf(err)
		a.Err = drive.ErrDetail(err)
		a.Payload = "error"
		if pe, ok := err.(*drive.PanicError); ok {
			a.Panic = pe.Stack
		}
	}
	return a
}

func doCheck(s *drive.Srv, store, model, object, relation, user string) answer {
	ctx, h := newCtx()
	o := s.Check(drive.Req{Store: store, Model: model, Object: object, Relation: relation, User: user, Context: ctx})
	p := "denied"
	if o.Allowed {
		p = "allowed"
	}
	a := finish("check", h, p, o.Err)
	a.Panic = o.Panic
	return a
}

func doListObjects(s *drive.Srv, store, model, typ, relation, user string, streamed bool) answer {
	ctx, h := newCtx()
	var o drive.ListOutcome
	kind := "listobjects"
	if streamed {
		kind = "streamedlistobjects"
		o = s.StreamedListObjects(drive.Req{Store: store, Model: model, Object: typ, Relation: relation, User: user, Context: ctx})
	} else {
		o = s.ListObjects(drive.Req{Store: store, Model: model, Object: typ, Relation: relation, User: user, Context: ctx})
	}
	a := finish(kind, h, canonList(o.Items), o.Err)
	a.Panic = o.Panic
	return a
}

func doListUsers(s *drive.Srv, store, model, object, relation string) answer {
	ctx, h := newCtx()
	o := s.ListUsers(drive.Req{Store: store, Model: model, Object: object, Relation: relation, Context: ctx}, "user", "")
	a := finish("listusers", h, canonList(o.Items), o.Err)
	a.Panic = o.Panic
	return a
}

func doExpand(s *drive.Srv, store, model, object, relation string) answer {
	ctx, h := newCtx()
	kind := ""
	err := drive.Guard(func() error {
		resp, err := s.S.Expand(ctx, &openfgav1.ExpandRequest{StoreId: store, AuthorizationModelId: model,
			TupleKey: &openfgav1.ExpandRequestTupleKey{Object: object, Relation: relation}})
		if err != nil {
			return err
		}
		kind = treeKind(resp.GetTree().GetRoot())
		return nil
	})
	return finish("expand", h, kind, err)
}

func doWriteTuple(s *drive.Srv, store, model, object, relation, user string) answer {
	ctx, h := newCtx()
	err := drive.Guard(func() error {
		_, err := s.S.Write(ctx, &openfgav1.WriteRequest{StoreId: store, AuthorizationModelId: model,
			Writes: &openfgav1.WriteRequestWrites{TupleKeys: []*openfgav1.TupleKey{{Object: object, Relation: relation, User: user}}}})
		return err
	})
	return finish("write", h, "ok", err)
}

func doBatchCheck(s *drive.Srv, store, model string, items [][3]string) answer {
	ctx, h := newCtx()
	req := &openfgav1.BatchCheckRequest{StoreId: store, AuthorizationModelId: model}
	for i, it := range items {
		req.Checks = append(req.Checks, &openfgav1.BatchCheckItem{CorrelationId: string(rune('a' + i)),
			TupleKey: &openfgav1.CheckRequestTupleKey{Object: it[0], Relation: it[1], User: it[2]}})
	}
	var parts []string
	err := drive.Guard(func() error {
		resp, err := s.S.BatchCheck(ctx, req)
		if err != nil {
			return err
		}
		for i := range items {
			r := resp.GetResult()[string(rune('a'+i))]
			switch v := r.GetCheckResult().(type) {
			case *openfgav1.BatchCheckSingleResult_Allowed:
				if v.Allowed {
					parts = append(parts, "T")
				} else {
					parts = append(parts, "F")
				}
			default:
				parts = append(parts, "E")
			}
		}
		return nil
	})
	return finish("batchcheck", h, strings.Join(parts, ""), err)
}

func treeKind(n *openfgav1.UsersetTree_Node) string {
	switch {
	case n == nil:
		return "nil"
	case n.GetUnion() != nil:
		return "union"
	case n.GetIntersection() != nil:
		return "intersection"
	case n.GetDifference() != nil:
		return "difference"
	case n.GetLeaf().GetComputed() != nil:
		return "computed:" + n.GetLeaf().GetComputed().GetUserset()
	case n.GetLeaf().GetTupleToUserset() != nil:
		return "ttu:" + n.GetLeaf().GetTupleToUserset().GetTupleset()
	case n.GetLeaf().GetUsers() != nil:
		return "this"
	}
	return "?"
}
