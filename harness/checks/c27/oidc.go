package c27

import (
	"context"
	"crypto"
	"crypto/ecdsa"
	"crypto/elliptic"
	"crypto/hmac"
	crand "crypto/rand"
	"crypto/rsa"
	"crypto/sha256"
	"crypto/sha512"
	"crypto/x509"
	"encoding/base64"
	"encoding/json"
	"encoding/pem"
	"fmt"
	"hash"
	"math/big"
	"net/http"
	"net/http/httptest"
	"runtime"
	"sort"
	"strings"
	"sync"
	"sync/atomic"
	"time"

	"google.golang.org/grpc/metadata"

	"github.com/openfga/openfga/internal/authn/oidc"
	"github.com/openfga/openfga/verifharness/vk"
)

// ---------- the issuer (loopback) ----------

type issuer struct {
	srv           *httptest.Server
	k1, k2, kU    *rsa.PrivateKey   // k1,k2 published; kU never published
	ec1           *ecdsa.PrivateKey // published (so that a non-RS256 token can be *validly* signed by a JWKS key)
	withAlg       bool              // JWKS entries carry "alg"/"use"
	discoveryHits atomic.Int64
	jwksHits      atomic.Int64
}

const (
	kid1, kid2, kidEC, kidUnknown = "c27-rsa-1", "c27-rsa-2", "c27-ec-1", "c27-not-published"
)

func b64(b []byte) string { return base64.RawURLEncoding.EncodeToString(b) }

func newIssuer(k1, k2, kU *rsa.PrivateKey, ec1 *ecdsa.PrivateKey, withAlg bool) *issuer {
	is := &issuer{k1: k1, k2: k2, kU: kU, ec1: ec1, withAlg: withAlg}
	rsaJWK := func(kid string, k *rsa.PublicKey) map[string]string {
		m := map[string]string{"kty": "RSA", "kid": kid, "n": b64(k.N.Bytes()), "e": b64(big.NewInt(int64(k.E)).Bytes())}
		if withAlg {
			m["alg"], m["use"] = "RS256", "sig"
		}
		return m
	}
	ecb, err := ec1.PublicKey.Bytes() // 0x04 || X || Y
	if err != nil {
		panic(err)
	}
	ecJWK := map[string]string{"kty": "EC", "kid": kidEC, "crv": "P-256", "x": b64(ecb[1:33]), "y": b64(ecb[33:65])}
	if withAlg {
		ecJWK["alg"], ecJWK["use"] = "ES256", "sig"
	}
	jwks, _ := json.Marshal(map[string]any{"keys": []any{rsaJWK(kid1, &k1.PublicKey), rsaJWK(kid2, &k2.PublicKey), ecJWK}})
	mux := http.NewServeMux()
	is.srv = httptest.NewUnstartedServer(mux)
	mux.HandleFunc("/.well-known/openid-configuration", func(w http.ResponseWriter, r *http.Request) {
		is.discoveryHits.Add(1)
		w.Header().Set("Content-Type", "application/json")
		_ = json.NewEncoder(w).Encode(map[string]string{"issuer": is.srv.URL, "jwks_uri": is.srv.URL + "/jwks"})
	})
	mux.HandleFunc("/jwks", func(w http.ResponseWriter, r *http.Request) {
		is.jwksHits.Add(1)
		w.Header().Set("Content-Type", "application/json")
		_, _ = w.Write(jwks)
	})
	is.srv.Start()
	return is
}

// ---------- dimensions ----------

type sigKind struct {
	name    string
	valid   bool // "RS256-signed by a key in the issuer's key set" AND found the way every verifier must find it (kid names that key)
	unjudge bool // RS256-signed by a JWKS key, but kid absent / names another key: the statement is silent on key selection
}

var sigKinds = []sigKind{
	{name: "rs256-k1", valid: true},
	{name: "rs256-k2", valid: true},
	{name: "rs256-unpublishedkey-kid1"},
	{name: "rs256-unpublishedkey-unknownkid"},
	{name: "rs256-k1-sigbitflip"},
	{name: "rs256-k1-signed-other-payload"},
	{name: "stripped-empty-signature"},
	{name: "stripped-two-segments"},
	{name: "alg-none"},
	{name: "alg-none-keeping-rs256-signature"},
	{name: "hs256-secret=k1-public-pem"},
	{name: "hs256-secret=k1-modulus"},
	{name: "rs384-k1"},
	{name: "rs512-k1"},
	{name: "ps256-k1"},
	{name: "es256-ec1-published"},
	{name: "rs256-k1-nokid", unjudge: true},
	{name: "rs256-k1-kid-of-k2", unjudge: true},
}

var (
	expVals = []string{"missing", "past", "future"}
	iatVals = []string{"absent", "past", "future"}
	nbfVals = []string{"absent", "future"}
	audVals = []string{"right", "wrong", "list-with-right", "list-without", "missing"}
	issVals = []string{"main", "alias1", "alias2", "other", "main-plus-suffix", "main-minus-last", "missing"}
	subVals = []string{"allowed2", "allowed1", "other", "allowed-prefix", "absent"}
)

// oidcConfig is one authenticator configuration.
type oidcConfig struct {
	name     string
	aliases  []string
	audience string
	subjects []string // nil = not configured
	withAlg  bool     // which issuer (JWKS flavour) it uses
	far      bool     // times +-30 days instead of +-1h
	nearPast bool     // "past" is only 5 s before the configuration runs (an expiry that has just passed must be refused: no leeway is documented); "future" stays +1h so that the run's duration cannot turn it into the past
	edge     bool     // configuration-boundary run: reduced product (sig in {rs256-k1, unpublished key}, nbf absent)
}

// selected reports whether the case is part of the configuration's (possibly reduced) product.
func (cfg oidcConfig) selected(oc oidcCase) bool {
	if !cfg.edge {
		return true
	}
	return (oc.sig == 0 || oc.sig == 2) && oc.nbf == 0
}

// findingFor names the specific known deviation a wrong acceptance belongs to ("" = none).
func (cfg oidcConfig) findingFor(reasons []string) string {
	if len(reasons) != 1 {
		return ""
	}
	if contains(cfg.aliases, "") && strings.HasPrefix(reasons[0], "iss=") {
		return "C27-empty-alias"
	}
	if contains(cfg.subjects, "") && strings.HasPrefix(reasons[0], "sub=") {
		return "C27-empty-subject"
	}
	return ""
}

const (
	theAudience = "api://openfga.c27"
	alias1      = "https://alias-one.c27.example/"
	alias2      = "c27-alias-two"
	subj1       = "svc-one@c27"
	subj2       = "svc-two@c27"
)

type oidcCase struct {
	sig                          int
	exp, iat, nbf, aud, iss, sub int
}

func (oc oidcCase) tuple() string {
	return fmt.Sprintf("sig=%s|exp=%s|iat=%s|nbf=%s|aud=%s|iss=%s|sub=%s", sigKinds[oc.sig].name, expVals[oc.exp], iatVals[oc.iat], nbfVals[oc.nbf], audVals[oc.aud], issVals[oc.iss], subVals[oc.sub])
}

// claims builds the claim set of a case for an issuer URL and time base.
func (oc oidcCase) claims(mainIssuer string, past, future int64) map[string]any {
	m := map[string]any{"azp": "c27-client", "scope": "read write", "jti": oc.tuple()}
	switch expVals[oc.exp] {
	case "past":
		m["exp"] = past
	case "future":
		m["exp"] = future
	}
	switch iatVals[oc.iat] {
	case "past":
		m["iat"] = past
	case "future":
		m["iat"] = future
	}
	if nbfVals[oc.nbf] == "future" {
		m["nbf"] = future
	}
	switch audVals[oc.aud] {
	case "right":
		m["aud"] = theAudience
	case "wrong":
		m["aud"] = theAudience + ".evil"
	case "list-with-right":
		m["aud"] = []string{"api://something-else", theAudience}
	case "list-without":
		m["aud"] = []string{"api://something-else", theAudience + "/", strings.ToUpper(theAudience)}
	}
	switch issVals[oc.iss] {
	case "main":
		m["iss"] = mainIssuer
	case "alias1":
		m["iss"] = alias1
	case "alias2":
		m["iss"] = alias2
	case "other":
		m["iss"] = "https://evil.c27.example/"
	case "main-plus-suffix":
		m["iss"] = mainIssuer + ".evil.example"
	case "main-minus-last":
		m["iss"] = mainIssuer[:len(mainIssuer)-1]
	}
	switch subVals[oc.sub] {
	case "allowed2":
		m["sub"] = subj2
	case "allowed1":
		m["sub"] = subj1
	case "other":
		m["sub"] = "mallory@c27"
	case "allowed-prefix":
		m["sub"] = subj2[:len(subj2)-1]
	}
	return m
}

// oidcOracle is the conjunction of the property statement. reasons lists the failing conjuncts.
func oidcOracle(oc oidcCase, cfg oidcConfig) (accept, judged bool, reasons []string) {
	sk := sigKinds[oc.sig]
	if !sk.valid && !sk.unjudge {
		reasons = append(reasons, "sig="+sk.name) // not RS256-signed by a key in the issuer's key set
	}
	if expVals[oc.exp] != "future" {
		reasons = append(reasons, "exp="+expVals[oc.exp]) // carries an expiry that has not passed
	}
	if iatVals[oc.iat] == "future" {
		reasons = append(reasons, "iat=future") // was not issued in the future
	}
	if a := audVals[oc.aud]; a != "right" && a != "list-with-right" {
		reasons = append(reasons, "aud="+a) // names the configured audience
	}
	issOK := false
	switch issVals[oc.iss] { // names the configured issuer or an alias
	case "main":
		issOK = true
	case "alias1":
		issOK = contains(cfg.aliases, alias1)
	case "alias2":
		issOK = contains(cfg.aliases, alias2)
	}
	if !issOK {
		reasons = append(reasons, "iss="+issVals[oc.iss])
	}
	if len(cfg.subjects) > 0 { // when subjects are configured, names an allowed subject
		var s string
		switch subVals[oc.sub] {
		case "allowed2":
			s = subj2
		case "allowed1":
			s = subj1
		case "other":
			s = "mallory@c27"
		case "allowed-prefix":
			s = subj2[:len(subj2)-1]
		}
		if subVals[oc.sub] == "absent" || !contains(cfg.subjects, s) {
			reasons = append(reasons, "sub="+subVals[oc.sub])
		}
	}
	accept = len(reasons) == 0
	judged = true
	if accept && (sk.unjudge || nbfVals[oc.nbf] == "future") {
		judged = false // statement silent: kid-based key selection, not-before
	}
	// an empty-string alias / allowed subject against a token that names no issuer / subject at all:
	// whether "absent" names "" is not decided by the statement
	if contains(cfg.aliases, "") && issVals[oc.iss] == "missing" {
		judged = false
	}
	if contains(cfg.subjects, "") && subVals[oc.sub] == "absent" {
		judged = false
	}
	return
}

func contains(l []string, s string) bool {
	for _, x := range l {
		if x == s {
			return true
		}
	}
	return false
}

// ---------- token assembly (standard library only) ----------

func signRSA(k *rsa.PrivateKey, h crypto.Hash, pss bool, msg string) []byte {
	hh := h.New()
	hh.Write([]byte(msg))
	d := hh.Sum(nil)
	var sig []byte
	var err error
	if pss {
		sig, err = rsa.SignPSS(crand.Reader, k, h, d, &rsa.PSSOptions{SaltLength: rsa.PSSSaltLengthEqualsHash})
	} else {
		sig, err = rsa.SignPKCS1v15(nil, k, h, d)
	}
	if err != nil {
		panic(err)
	}
	return sig
}

func hmacSign(newH func() hash.Hash, secret []byte, msg string) []byte {
	m := hmac.New(newH, secret)
	m.Write([]byte(msg))
	return m.Sum(nil)
}

func seg(v any) string {
	b, err := json.Marshal(v)
	if err != nil {
		panic(err)
	}
	return b64(b)
}

// buildToken assembles the compact JWS of a case.
func (is *issuer) buildToken(oc oidcCase, past, future int64) string {
	payload := seg(oc.claims(is.srv.URL, past, future))
	hdr := func(alg, kid string) string {
		h := map[string]string{"typ": "JWT", "alg": alg}
		if kid != "" {
			h["kid"] = kid
		}
		return seg(h)
	}
	rs := func(alg string, h crypto.Hash, pss bool, k *rsa.PrivateKey, kid string) string {
		in := hdr(alg, kid) + "." + payload
		return in + "." + b64(signRSA(k, h, pss, in))
	}
	switch sigKinds[oc.sig].name {
	case "rs256-k1":
		return rs("RS256", crypto.SHA256, false, is.k1, kid1)
	case "rs256-k2":
		return rs("RS256", crypto.SHA256, false, is.k2, kid2)
	case "rs256-unpublishedkey-kid1":
		return rs("RS256", crypto.SHA256, false, is.kU, kid1)
	case "rs256-unpublishedkey-unknownkid":
		return rs("RS256", crypto.SHA256, false, is.kU, kidUnknown)
	case "rs256-k1-sigbitflip":
		in := hdr("RS256", kid1) + "." + payload
		s := signRSA(is.k1, crypto.SHA256, false, in)
		s[len(s)/2] ^= 0x10
		return in + "." + b64(s)
	case "rs256-k1-signed-other-payload":
		// a genuine k1 signature over a fully valid claim set, transplanted onto this case's claims
		good := oidcCase{sig: 0, exp: 2, iat: 1, nbf: 0, aud: 0, iss: 0, sub: 0}
		h := hdr("RS256", kid1)
		s := signRSA(is.k1, crypto.SHA256, false, h+"."+seg(good.claims(is.srv.URL, past, future)))
		pl := oc.claims(is.srv.URL, past, future)
		pl["transplanted"] = true // guarantees the payload differs from the signed one
		return h + "." + seg(pl) + "." + b64(s)
	case "stripped-empty-signature":
		return hdr("RS256", kid1) + "." + payload + "."
	case "stripped-two-segments":
		return hdr("RS256", kid1) + "." + payload
	case "alg-none":
		return hdr("none", kid1) + "." + payload + "."
	case "alg-none-keeping-rs256-signature":
		in := hdr("RS256", kid1) + "." + payload
		return hdr("none", kid1) + "." + payload + "." + b64(signRSA(is.k1, crypto.SHA256, false, in))
	case "hs256-secret=k1-public-pem":
		der, err := x509.MarshalPKIXPublicKey(&is.k1.PublicKey)
		if err != nil {
			panic(err)
		}
		in := hdr("HS256", kid1) + "." + payload
		return in + "." + b64(hmacSign(sha256.New, pem.EncodeToMemory(&pem.Block{Type: "PUBLIC KEY", Bytes: der}), in))
	case "hs256-secret=k1-modulus":
		in := hdr("HS256", kid1) + "." + payload
		return in + "." + b64(hmacSign(sha256.New, is.k1.N.Bytes(), in))
	case "rs384-k1":
		return rs("RS384", crypto.SHA384, false, is.k1, kid1)
	case "rs512-k1":
		return rs("RS512", crypto.SHA512, false, is.k1, kid1)
	case "ps256-k1":
		return rs("PS256", crypto.SHA256, true, is.k1, kid1)
	case "es256-ec1-published":
		in := hdr("ES256", kidEC) + "." + payload
		d := sha256.Sum256([]byte(in))
		r, s, err := ecdsa.Sign(crand.Reader, is.ec1, d[:])
		if err != nil {
			panic(err)
		}
		out := make([]byte, 64)
		r.FillBytes(out[:32])
		s.FillBytes(out[32:])
		return in + "." + b64(out)
	case "rs256-k1-nokid":
		return rs("RS256", crypto.SHA256, false, is.k1, "")
	case "rs256-k1-kid-of-k2":
		return rs("RS256", crypto.SHA256, false, is.k1, kid2)
	}
	panic("unknown sig kind " + sigKinds[oc.sig].name)
}

var _ = sha512.New // (crypto.SHA384/512 need the package linked in)

// ---------- run ----------

func allCases() []oidcCase {
	var out []oidcCase
	for s := range sigKinds {
		for e := range expVals {
			for i := range iatVals {
				for n := range nbfVals {
					for a := range audVals {
						for is := range issVals {
							for su := range subVals {
								out = append(out, oidcCase{s, e, i, n, a, is, su})
							}
						}
					}
				}
			}
		}
	}
	return out
}

type oidcResult struct {
	token    string
	accepted bool
	mw       bool
	subject  string
	panicked string
}

func runOIDC(c *vk.Ctx) {
	gen := func() *rsa.PrivateKey {
		k, err := rsa.GenerateKey(crand.Reader, 2048)
		if err != nil {
			panic(err)
		}
		return k
	}
	k1, k2, kU := gen(), gen(), gen()
	ec1, err := ecdsa.GenerateKey(elliptic.P256(), crand.Reader)
	if err != nil {
		c.HarnessError("ecdsa keygen: %v", err)
		return
	}
	issuers := map[bool]*issuer{false: newIssuer(k1, k2, kU, ec1, false)}
	defer func() {
		for _, is := range issuers {
			is.srv.Close()
		}
	}()

	both := []string{alias1, alias2}
	cfgs := []oidcConfig{
		{name: "A:aliases=2,subjects=none,jwks-without-alg", aliases: both, audience: theAudience},
		{name: "B:aliases=2,subjects=2,jwks-without-alg", aliases: both, audience: theAudience, subjects: []string{subj1, subj2}},
	}
	if !c.Quick() {
		issuers[true] = newIssuer(k1, k2, kU, ec1, true)
		cfgs = append(cfgs,
			oidcConfig{name: "C:aliases=0,subjects=none,jwks-with-alg", audience: theAudience, withAlg: true},
			oidcConfig{name: "D:aliases=1(alias2),subjects=1(subj2),jwks-with-alg", aliases: []string{alias2}, audience: theAudience, subjects: []string{subj2}, withAlg: true},
			oidcConfig{name: "E:aliases=2,subjects=3,jwks-without-alg,times=+-30d", aliases: both, audience: theAudience, subjects: []string{"zzz", subj1, subj2}, far: true},
			oidcConfig{name: "F:aliases=1(alias1),subjects=1(subj1 only),jwks-without-alg", aliases: []string{alias1}, audience: theAudience, subjects: []string{subj1}},
		)
	}

	// time boundary (both tiers, reduced product): expiry / issue times only 20 s in the past
	cfgs = append(cfgs, oidcConfig{name: "K:aliases=2,subjects=2,times=-5s/+1h", aliases: both, audience: theAudience, subjects: []string{subj1, subj2}, nearPast: true, edge: true})
	// configuration boundaries (both tiers, reduced product): an empty string among the aliases / subjects
	cfgs = append(cfgs,
		oidcConfig{name: "G:aliases=[\"\"],subjects=none", aliases: []string{""}, audience: theAudience, edge: true},
		oidcConfig{name: "H:aliases=[alias1,\"\"],subjects=none", aliases: []string{alias1, ""}, audience: theAudience, edge: true},
		oidcConfig{name: "I:aliases=2,subjects=[\"\"]", aliases: both, audience: theAudience, subjects: []string{""}, edge: true},
		oidcConfig{name: "J:aliases=2,subjects=[subj1,\"\"]", aliases: both, audience: theAudience, subjects: []string{subj1, ""}, edge: true},
	)

	cases := allCases()
	c.Extra("oidc_dimensions", map[string]any{"sig": sigNames(), "exp": expVals, "iat": iatVals, "nbf": nbfVals, "aud": audVals, "iss": issVals, "sub": subVals, "configs": cfgNames(cfgs)})
	c.Extra("oidc_product_size_per_config", len(cases))

	now := time.Now()
	// token cache: the token of a case depends only on (issuer flavour, time base), not on the config
	type tokKey struct{ withAlg, far, nearPast bool }
	tokens := map[tokKey][]string{}

	totalAcc, totalRej, totalUnj := 0, 0, 0
	for _, cfg := range cfgs {
		is := issuers[cfg.withAlg]
		d := time.Hour
		if cfg.far {
			d = 30 * 24 * time.Hour
		}
		past, future := now.Add(-d).Unix(), now.Add(d).Unix()
		if cfg.nearPast {
			// relative to the start of THIS configuration's run: its reduced product takes a second or two
			past = time.Now().Add(-5 * time.Second).Unix()
		}

		a, err := oidc.NewRemoteOidcAuthenticator(is.srv.URL, cfg.aliases, cfg.audience, cfg.subjects, nil)
		if err != nil && cfg.edge {
			// refusing a configuration with an empty alias/subject is a legitimate way to keep the property
			c.Count("oidc_edge_config_refused_by_constructor", 1)
			c.Logf("oidc cfg %s refused by the constructor: %v", cfg.name, err)
			continue
		}
		if err != nil {
			c.HarnessError("NewRemoteOidcAuthenticator(%s): %v", cfg.name, err)
			return
		}
		tk := tokKey{cfg.withAlg, cfg.far, cfg.nearPast}
		toks := tokens[tk]
		build := toks == nil
		if build {
			toks = make([]string, len(cases))
		}
		res := make([]oidcResult, len(cases))
		var wg sync.WaitGroup
		workers := runtime.GOMAXPROCS(0)
		if workers > 16 {
			workers = 16
		}
		var next atomic.Int64
		for w := 0; w < workers; w++ {
			wg.Add(1)
			go func() {
				defer wg.Done()
				for {
					i := int(next.Add(1)) - 1
					if i >= len(cases) {
						return
					}
					if !cfg.selected(cases[i]) {
						continue
					}
					if build {
						toks[i] = is.buildToken(cases[i], past, future)
					}
					res[i] = observeOIDC(a, toks[i])
				}
			}()
		}
		wg.Wait()
		tokens[tk] = toks
		a.Close()

		if time.Since(now) > 50*time.Minute {
			c.Inconclusive("run took longer than 50 minutes: the +-1h time classification is no longer safe")
			return
		}

		acc, rej, unj, expectAcc := 0, 0, 0, 0
		accBySig := map[string]int{}
		nsel := 0
		for i, oc := range cases {
			if !cfg.selected(oc) {
				continue
			}
			nsel++
			want, judged, reasons := oidcOracle(oc, cfg)
			r := res[i]
			sig := "oidc|cfg=" + cfg.name + "|" + oc.tuple()
			c.Case(sig, true)
			witness := func() any {
				return map[string]any{"part": "oidc", "config": map[string]any{"name": cfg.name, "main_issuer": is.srv.URL, "aliases": cfg.aliases, "audience": cfg.audience, "subjects": cfg.subjects, "times_far": cfg.far}, "issuer": is.srv.URL, "case": oc.tuple(), "claims": oc.claims(is.srv.URL, past, future),
					"token": r.token, "jwks_with_alg": cfg.withAlg, "now_unix": now.Unix(), "oracle_accept": want, "judged": judged, "failing_conjuncts": reasons,
					"observed_Authenticate_accepts": r.accepted, "observed_AuthFunc_accepts": r.mw}
			}
			if r.panicked != "" {
				c.Violation("", "oidc|panic|"+sigKinds[oc.sig].name, "OIDC authentication panicked: "+r.panicked, witness())
				continue
			}
			if r.accepted != r.mw {
				c.Violation("", "oidc|paths-disagree", fmt.Sprintf("OIDC: Authenticate accepted=%v but middleware AuthFunc accepted=%v for %s", r.accepted, r.mw, oc.tuple()), witness())
				continue
			}
			if r.accepted {
				accBySig[sigKinds[oc.sig].name]++
			}
			if !judged {
				unj++
				c.Count("oidc_unjudged_accepted", b2i(r.accepted))
				continue
			}
			if want {
				expectAcc++
			}
			if r.accepted {
				acc++
			} else {
				rej++
			}
			if r.accepted != want {
				if want {
					c.Violation("", "oidc|"+cfg.name+"|rejected-valid|sig="+sigKinds[oc.sig].name+"|aud="+audVals[oc.aud]+"|iss="+issVals[oc.iss]+"|iat="+iatVals[oc.iat]+"|sub="+subVals[oc.sub],
						fmt.Sprintf("OIDC [%s]: token satisfying every conjunct of the statement was REJECTED: %s", cfg.name, oc.tuple()), witness())
				} else {
					c.Violation(cfg.findingFor(reasons), "oidc|"+cfg.name+"|accepted-invalid|"+strings.Join(reasons, ","),
						fmt.Sprintf("OIDC [%s]: token ACCEPTED although it violates %v: %s", cfg.name, reasons, oc.tuple()), witness())
				}
			}
		}
		for k, v := range accBySig {
			c.Count("oidc_accepted_by_sig:"+k, v)
		}
		c.Count("oidc_accepted", acc)
		c.Count("oidc_rejected", rej)
		c.Count("oidc_unjudged", unj)
		c.Count("oidc_oracle_expected_accept", expectAcc)
		totalAcc, totalRej, totalUnj = totalAcc+acc, totalRej+rej, totalUnj+unj
		c.Logf("oidc cfg %s: cases=%d accepted=%d (oracle %d) rejected=%d unjudged=%d", cfg.name, nsel, acc, expectAcc, rej, unj)
		// two written-out samples per config: first expected-accept and first expected-reject-by-one-conjunct
		sa, sr := false, false
		for i, oc := range cases {
			if cfg.edge {
				break
			}
			want, judged, reasons := oidcOracle(oc, cfg)
			if judged && want && !sa {
				sa = true
				c.Sample(map[string]any{"part": "oidc", "config": cfg.name, "case": oc.tuple(), "oracle": "accept", "observed_accept": res[i].accepted, "token": res[i].token})
			}
			if judged && !want && len(reasons) == 1 && oc.sig == 0 && !sr {
				sr = true
				c.Sample(map[string]any{"part": "oidc", "config": cfg.name, "case": oc.tuple(), "oracle": "reject", "failing": reasons, "observed_accept": res[i].accepted})
			}
		}
	}
	for _, is := range issuers {
		c.Count("oidc_discovery_requests", int(is.discoveryHits.Load()))
		c.Count("oidc_jwks_requests", int(is.jwksHits.Load()))
	}
	if totalAcc == 0 || totalRej == 0 {
		c.HarnessError("oidc part vacuous: accepted=%d rejected=%d", totalAcc, totalRej)
	}
	_ = totalUnj

	runOIDCHeaderShapes(c, issuers[false], now)
}

func sigNames() []string {
	var o []string
	for _, s := range sigKinds {
		o = append(o, s.name)
	}
	return o
}

func cfgNames(cfgs []oidcConfig) []string {
	var o []string
	for _, s := range cfgs {
		o = append(o, s.name)
	}
	sort.Strings(o)
	return o
}

func observeOIDC(a *oidc.RemoteOidcAuthenticator, token string) (r oidcResult) {
	return observeOIDCHeader(a, []string{"Bearer " + token}, token)
}

func observeOIDCHeader(a *oidc.RemoteOidcAuthenticator, hdr []string, token string) (r oidcResult) {
	r.token = token
	defer func() {
		if p := recover(); p != nil {
			buf := make([]byte, 8192)
			r.panicked = fmt.Sprintf("%v\n%s", p, buf[:runtime.Stack(buf, false)])
		}
	}()
	md := metadata.MD{}
	if hdr != nil {
		md["authorization"] = hdr
	}
	ctx := metadata.NewIncomingContext(context.Background(), md)
	o := observeAuth(a, ctx)
	if o.panicked != "" {
		r.panicked = o.panicked
		return
	}
	r.accepted = o.direct
	r.mw = o.mw && o.icpt
	if o.mw != o.icpt {
		r.mw = !o.direct // force a disagreement report
	}
	return r
}

// runOIDCHeaderShapes presents one fully valid and one expired token under different header shapes.
func runOIDCHeaderShapes(c *vk.Ctx, is *issuer, now time.Time) {
	a, err := oidc.NewRemoteOidcAuthenticator(is.srv.URL, nil, theAudience, nil, nil)
	if err != nil {
		c.HarnessError("NewRemoteOidcAuthenticator(header shapes): %v", err)
		return
	}
	defer a.Close()
	past, future := now.Add(-time.Hour).Unix(), now.Add(time.Hour).Unix()
	good := is.buildToken(oidcCase{sig: 0, exp: 2, iat: 1, nbf: 0, aud: 0, iss: 0, sub: 0}, past, future)
	expired := is.buildToken(oidcCase{sig: 0, exp: 1, iat: 1, nbf: 0, aud: 0, iss: 0, sub: 0}, past, future)
	type hs struct {
		name string
		hdr  []string
		want bool
	}
	shapes := []hs{
		{"good/Bearer", []string{"Bearer " + good}, true},
		{"good/bearer-lowercase", []string{"bearer " + good}, true},
		{"good/BEARER-uppercase", []string{"BEARER " + good}, true},
		{"good/header-missing", nil, false},
		{"good/no-scheme", []string{good}, false},
		{"good/Basic", []string{"Basic " + good}, false},
		{"good/no-space", []string{"Bearer" + good}, false},
		{"good/two-spaces", []string{"Bearer  " + good}, false},
		{"good/trailing-space", []string{"Bearer " + good + " "}, false},
		{"good/trailing-garbage-segment", []string{"Bearer " + good + ".AAAA"}, false},
		{"good/last-signature-char-dropped", []string{"Bearer " + good[:len(good)-1]}, false},
		{"good/payload-char-changed", []string{"Bearer " + mutateMiddle(good)}, false},
		{"expired/Bearer", []string{"Bearer " + expired}, false},
		{"empty-token", []string{"Bearer "}, false},
		{"garbage-token", []string{"Bearer not.a.jwt"}, false},
		{"two-values-none-valid", []string{"Bearer " + expired, "Basic " + good}, false},
	}
	for _, s := range shapes {
		r := observeOIDCHeader(a, s.hdr, "")
		c.Case("oidc-header|"+s.name, true)
		w := map[string]any{"part": "oidc-header-shape", "shape": s.name, "authorization": s.hdr, "oracle_accept": s.want, "observed": r.accepted}
		if r.panicked != "" {
			c.Violation("", "oidc-header|panic|"+s.name, "OIDC authentication panicked: "+r.panicked, w)
			continue
		}
		if r.accepted != s.want || r.mw != s.want {
			c.Violation("", "oidc-header|"+s.name, fmt.Sprintf("OIDC header shape %q: accepted=%v (middleware %v), statement demands %v", s.name, r.accepted, r.mw, s.want), w)
		}
		c.Count("oidc_header_shapes", 1)
	}
}

// mutateMiddle changes one character in the middle of the payload segment.
func mutateMiddle(tok string) string {
	p := strings.Split(tok, ".")
	b := []byte(p[1])
	i := len(b) / 2
	if b[i] == 'A' {
		b[i] = 'B'
	} else {
		b[i] = 'A'
	}
	p[1] = string(b)
	return strings.Join(p, ".")
}
