// Package c27 checks property C27 "Authentication accepts exactly valid credentials".
//
// Two monitors observe the real authenticators of openfga:
//
//   - psk.go:  presharedkey.PresharedKeyAuthenticator (directly, through the middleware AuthFunc and
//     through the grpc-middleware unary interceptor) on generated key sets and on tokens derived from
//     those keys (equal / prefix / suffix / case / padding / confusable / NUL / hash-of-key ...).
//     Oracle: accepted <=> header is "<bearer, any case> SP <token>" and token is byte-equal to a key.
//
//   - oidc.go: oidc.RemoteOidcAuthenticator built against a loopback discovery+JWKS server, on the
//     complete product of signature x exp x iat x nbf x aud x iss x sub x (subjects configured?).
//     Tokens are assembled and signed with the standard library only (no jwt library on the
//     generating side). Oracle: the conjunction in the property statement.
package c27

import (
	"github.com/openfga/openfga/verifharness/vk"
)

func init() { vk.Register("C27", "exploration", run) }

func run(c *vk.Ctx) {
	c.SetRule("PSK: per generated key set (1-4 keys: ascii/unicode/long/with-spaces/with-NUL/prefix-related), one case per " +
		"(token-derivation class, key shape, header shape); signature = class|keyshape|nkeys|expected; every case is non-trivial " +
		"(the token is derived from a configured key or is a structurally distinct header). " +
		"OIDC: the complete product sig x exp x iat x nbf x aud x iss x sub x subjectsConfigured per authenticator configuration, " +
		"signature = the tuple of dimension values (all distinct by construction, all non-trivial); tokens are signed with " +
		"crypto/rsa, crypto/ecdsa, crypto/hmac directly. Times are now-1h / now+1h (and +-30d in one thorough configuration).")
	c.Assume("Go standard library crypto (rsa, ecdsa, hmac, sha2) and encoding/json, net/http/httptest are correct")
	c.Assume("the loopback HTTP server is the issuer: its JWKS document is 'the issuer's key set'")
	c.Assume("PSK header grammar: token = everything after the first single space; scheme compared case-insensitively (grpc-middleware AuthFromMD doc, RFC 7235)")
	c.Assume("nbf-in-the-future tokens, RS256 tokens validly signed by a JWKS key but carrying no/other kid: acceptance is not judged (statement silent); rejection is still demanded whenever another conjunct fails")

	runPSK(c)
	runOIDC(c)
	c.SetExhaustive(true) // the OIDC product is enumerated completely (the PSK part is sampled; see rule)
}
