package c27

import (
	"context"
	"crypto/sha256"
	"encoding/base64"
	"encoding/hex"
	"fmt"
	"math/rand"
	"runtime/debug"
	"strconv"
	"strings"
	"unicode"

	grpcauth "github.com/grpc-ecosystem/go-grpc-middleware/v2/interceptors/auth"
	"google.golang.org/grpc"
	"google.golang.org/grpc/metadata"

	"github.com/openfga/openfga/internal/authn"
	"github.com/openfga/openfga/internal/authn/presharedkey"
	authnmw "github.com/openfga/openfga/internal/middleware/authn"
	"github.com/openfga/openfga/verifharness/vk"
)

// ---------- oracle (written from the statement + the documented header grammar) ----------

// pskOracle decides whether a request whose incoming metadata carries the given `authorization`
// values must be authenticated. judged=false: the statement is silent (several header values of
// which at least one would be valid).
func pskOracle(keys []string, hdr []string) (accept, judged bool) {
	one := func(v string) bool {
		i := strings.IndexByte(v, ' ')
		if i < 0 {
			return false
		}
		if !asciiFoldEq(v[:i], "bearer") {
			return false
		}
		tok := v[i+1:]
		for _, k := range keys {
			if k == tok { // Go string equality is byte equality
				return true
			}
		}
		return false
	}
	switch len(hdr) {
	case 0:
		return false, true
	case 1:
		return one(hdr[0]), true
	}
	any := false
	for _, v := range hdr {
		any = any || one(v)
	}
	if !any {
		return false, true
	}
	return false, false
}

func asciiFoldEq(s, lower string) bool {
	if len(s) != len(lower) {
		return false
	}
	for i := 0; i < len(s); i++ {
		ch := s[i]
		if ch >= 'A' && ch <= 'Z' {
			ch += 'a' - 'A'
		}
		if ch != lower[i] {
			return false
		}
	}
	return true
}

// ---------- generation ----------

const asciiAlphabet = "abcdefghijklmnopqrstuvwxyzABCDEFGHIJKLMNOPQRSTUVWXYZ0123456789-_.~+/="

var uniRunes = []rune{0xe9, 0xfc, 0xdf, 0x130, 0x131, 0x430, 0x435, 0x43e, 0x3a9, 0x3c9, 0x212a, 0x4e2d, 0x6587, 0x9375, 0x30ad, 0x1f511, 0x1f642, 0x301, 0x200b, 0xfb01, 0x1c5, 'a', 'E', 'k', 'S', 's', '1', 'e'}

func genASCII(r *rand.Rand, n int) string {
	b := make([]byte, n)
	for i := range b {
		b[i] = asciiAlphabet[r.Intn(len(asciiAlphabet))]
	}
	return string(b)
}

type pskKey struct {
	k     string
	shape string
}

func genKeySet(r *rand.Rand) []pskKey {
	n := 1 + r.Intn(4)
	var ks []pskKey
	for len(ks) < n {
		var k pskKey
		switch p := r.Intn(100); {
		case p < 30:
			k = pskKey{genASCII(r, 2+r.Intn(47)), "ascii"}
		case p < 36:
			k = pskKey{genASCII(r, 1), "ascii1"}
		case p < 42:
			k = pskKey{genASCII(r, 4000+r.Intn(66000)), "long"}
		case p < 55:
			m := 3 + r.Intn(18)
			rs := make([]rune, m)
			for i := range rs {
				rs[i] = uniRunes[r.Intn(len(uniRunes))]
			}
			k = pskKey{string(rs), "unicode"}
		case p < 62:
			s := genASCII(r, 3+r.Intn(20))
			pos := r.Intn(len(s) + 1)
			sp := []string{" ", "  ", "\t", " "}[r.Intn(4)]
			k = pskKey{s[:pos] + sp + s[pos:], "spaces"}
		case p < 67:
			s := genASCII(r, 3+r.Intn(20))
			pos := 1 + r.Intn(len(s)-1)
			k = pskKey{s[:pos] + "\x00" + s[pos:], "nul"}
		case p < 71:
			s := []byte(genASCII(r, 3+r.Intn(20)))
			s[r.Intn(len(s))] = 0xff
			k = pskKey{string(s), "invalidutf8"}
		case p < 88 && len(ks) > 0:
			base := ks[r.Intn(len(ks))].k
			switch r.Intn(4) {
			case 0:
				k = pskKey{base + genASCII(r, 1+r.Intn(3)), "ext-of-key"}
			case 1:
				if len(base) > 1 {
					k = pskKey{base[:1+r.Intn(len(base)-1)], "prefix-of-key"}
				} else {
					k = pskKey{base + base, "ext-of-key"}
				}
			case 2:
				k = pskKey{base + base, "ext-of-key"}
			default:
				if len(base) > 1 {
					k = pskKey{base[1+r.Intn(len(base)-1):], "suffix-of-key"}
				} else {
					k = pskKey{"x" + base, "ext-of-key"}
				}
			}
		case p < 96 && len(ks) > 0:
			base := ks[r.Intn(len(ks))].k
			v := strings.ToUpper(base)
			if v == base {
				v = strings.ToLower(base)
			}
			if v == base {
				v = base + "A"
			}
			k = pskKey{v, "case-variant-of-key"}
		default:
			k = pskKey{"correct horse battery staple \u00e9\U0001f511", "phrase"}
		}
		if k.k == "" {
			continue
		}
		ks = append(ks, k)
	}
	return ks
}

var homoglyph = map[rune]rune{'a': 0x430, 'e': 0x435, 'o': 0x43e, 'c': 0x441, 'p': 0x440, 'x': 0x445, 'y': 0x443, 'i': 0x456, 'A': 0x391, 'B': 0x392, 'E': 0x395, 'O': 0x39f, 'K': 0x212a, 'k': 0x3ba, 'S': 0x405, 's': 0x455}

type pskCase struct {
	class   string
	hdr     []string // authorization values; nil = header absent
	mdOther bool     // absent header, but other metadata present
	outOnly bool     // header present only in OUTGOING metadata
	noMD    bool     // no metadata at all
}

func swapCaseFirst(s string) string {
	for i, ch := range s {
		if ch < 128 && unicode.IsLetter(ch) {
			var sw rune
			if unicode.IsUpper(ch) {
				sw = unicode.ToLower(ch)
			} else {
				sw = unicode.ToUpper(ch)
			}
			return s[:i] + string(sw) + s[i+1:]
		}
	}
	return s
}

// deriveCases lists the requests derived from key k (index i) of the key set.
func deriveCases(r *rand.Rand, keys []string, i int) []pskCase {
	k := keys[i]
	other := keys[(i+1)%len(keys)]
	var out []pskCase
	B := func(class, tok string) { out = append(out, pskCase{class: class, hdr: []string{"Bearer " + tok}}) }
	H := func(class string, vals ...string) { out = append(out, pskCase{class: class, hdr: vals}) }
	ifDiff := func(class, tok string) {
		if tok != k {
			B(class, tok)
		}
	}

	B("equal", k)
	H("equal-scheme-lower", "bearer "+k)
	H("equal-scheme-upper", "BEARER "+k)
	H("equal-scheme-mixed", "bEaReR "+k)

	if len(k) > 1 {
		B("prefix-minus1", k[:len(k)-1])
		B("prefix-1byte", k[:1])
		B("suffix-minus1", k[1:])
		B("prefix-random", k[:1+r.Intn(len(k)-1)])
	}
	if len(k) > 3 {
		B("prefix-half", k[:len(k)/2])
	}
	B("ext-x", k+"x")
	B("ext-lastbyte", k+k[len(k)-1:])
	B("ext-front-x", "x"+k)
	B("ext-twice", k+k)

	ifDiff("case-upper", strings.ToUpper(k))
	ifDiff("case-lower", strings.ToLower(k))
	ifDiff("case-swap-first", swapCaseFirst(k))
	ifDiff("case-title", strings.ToTitle(k))

	B("pad-lead-space", " "+k)
	B("pad-trail-space", k+" ")
	B("pad-both-space", " "+k+" ")
	B("pad-lead-tab", "\t"+k)
	B("pad-trail-tab", k+"\t")
	B("pad-trail-lf", k+"\n")
	B("pad-trail-crlf", k+"\r\n")
	B("pad-lead-nbsp", "\u00a0"+k)
	ifDiff("pad-trimmed", strings.TrimSpace(k))

	for idx, ch := range k {
		if g, ok := homoglyph[ch]; ok {
			B("confusable-homoglyph", k[:idx]+string(g)+k[idx+len(string(ch)):])
			break
		}
	}
	if k[0] > 0x20 && k[0] < 0x7f {
		B("confusable-fullwidth", string(rune(k[0])-0x20+0xff00)+k[1:])
	}
	B("confusable-zwsp", k+"\u200b")
	B("confusable-bom", "\ufeff"+k)
	if strings.Contains(k, "\u00e9") {
		B("confusable-nfd", strings.Replace(k, "\u00e9", "e\u0301", 1))
	}
	if strings.Contains(k, "e\u0301") {
		B("confusable-nfc", strings.Replace(k, "e\u0301", "\u00e9", 1))
	}
	ifDiff("confusable-tovalidutf8", strings.ToValidUTF8(k, "\ufffd"))

	B("nul-trail", k+"\x00")
	B("nul-lead", "\x00"+k)
	pos := r.Intn(len(k) + 1)
	B("nul-inside", k[:pos]+"\x00"+k[pos:])
	if j := strings.IndexByte(k, 0); j >= 0 {
		B("nul-cstring-truncation", k[:j])
		B("nul-removed", strings.ReplaceAll(k, "\x00", ""))
	}

	bf := []byte(k)
	bp := r.Intn(len(bf))
	bf[bp] ^= 1 << uint(r.Intn(8))
	B("bitflip", string(bf))
	if len(k) <= 64 {
		B("samelen-random", genASCII(r, len(k)))
	}
	if len(k) > 1 {
		sw := []byte(k)
		sw[0], sw[len(sw)-1] = sw[len(sw)-1], sw[0]
		ifDiff("swap-first-last", string(sw))
	}

	sum := sha256.Sum256([]byte(k))
	B("hash-hex", hex.EncodeToString(sum[:]))
	B("hash-raw", string(sum[:]))
	B("base64-of-key", base64.StdEncoding.EncodeToString([]byte(k)))
	B("quoted", "\""+k+"\"")
	B("concat-comma", k+","+other)
	B("concat-space", k+" "+other)
	B("concat-plain", k+other)
	B("random-unrelated", genASCII(r, 1+r.Intn(40)))

	H("shape-no-space", "Bearer"+k)
	H("shape-colon", "Bearer:"+k)
	H("shape-tab-separator", "Bearer\t"+k)
	H("shape-bare-key", k)
	H("scheme-basic", "Basic "+k)
	H("scheme-basic-b64", "Basic "+base64.StdEncoding.EncodeToString([]byte(":"+k)))
	H("scheme-token", "Token "+k)
	H("scheme-bearerx", "Bearerx "+k)
	H("scheme-bear", "Bear "+k)
	H("scheme-fullwidth", "\uff22earer "+k)
	H("scheme-leading-space", " Bearer "+k)
	H("scheme-empty", " "+k)
	H("multi-valid-first", "Bearer "+k, "Bearer "+k+"x")
	H("multi-valid-second", "Bearer "+k+"x", "Bearer "+k)
	H("multi-none-valid", "Bearer "+k+"x", "Basic "+k)
	H("multi-comma-joined", "Bearer "+k+"x, Bearer "+k)

	out = append(out, pskCase{class: "outgoing-metadata-only", hdr: []string{"Bearer " + k}, outOnly: true})
	return out
}

// keyless requests, once per key set.
func staticCases() []pskCase {
	return []pskCase{
		{class: "missing-no-metadata", noMD: true},
		{class: "missing-empty-metadata"},
		{class: "missing-other-metadata", mdOther: true},
		{class: "empty-header-value", hdr: []string{""}},
		{class: "scheme-only", hdr: []string{"Bearer"}},
		{class: "empty-token", hdr: []string{"Bearer "}},
		{class: "space-token", hdr: []string{"Bearer  "}},
		{class: "empty-values-list", hdr: []string{}},
	}
}

func (pc pskCase) ctx() context.Context {
	ctx := context.Background()
	if pc.noMD {
		return ctx
	}
	md := metadata.MD{}
	if pc.mdOther {
		md["x-authorization"] = []string{"Bearer whatever"}
		md["authorization-bin"] = []string{"Bearer whatever"}
	}
	if pc.outOnly {
		return metadata.NewIncomingContext(metadata.NewOutgoingContext(ctx, metadata.MD{"authorization": pc.hdr}), md)
	}
	if pc.hdr != nil {
		md["authorization"] = pc.hdr
	}
	return metadata.NewIncomingContext(ctx, md)
}

// ---------- observation of the real code ----------

type authObs struct {
	direct, mw, icpt bool // accepted by Authenticate / AuthFunc / unary interceptor (handler reached)
	panicked         string
}

func observeAuth(a authn.Authenticator, ctx context.Context) (o authObs) {
	defer func() {
		if r := recover(); r != nil {
			o.panicked = fmt.Sprintf("%v\n%s", r, debug.Stack())
		}
	}()
	_, err := a.Authenticate(ctx)
	o.direct = err == nil
	_, err = authnmw.AuthFunc(a)(ctx)
	o.mw = err == nil
	reached := false
	_, err = grpcauth.UnaryServerInterceptor(authnmw.AuthFunc(a))(ctx, nil, &grpc.UnaryServerInfo{FullMethod: "/openfga.v1.OpenFGAService/Check"},
		func(ctx context.Context, req any) (any, error) { reached = true; return nil, nil })
	o.icpt = reached && err == nil
	if reached != (err == nil) {
		o.icpt = reached // handler reached is what matters; report disagreement through mismatch below
	}
	return o
}

func quoteShort(s string) string {
	if len(s) <= 200 {
		return strconv.Quote(s)
	}
	sum := sha256.Sum256([]byte(s))
	return fmt.Sprintf("%s...(len=%d sha256=%x)", strconv.Quote(s[:60]), len(s), sum[:8])
}

func runPSK(c *vk.Ctx) {
	nCfg := c.Pick(400, 20000)
	var nAcc, nRej, nUnj int
	for ci := 0; ci < nCfg; ci++ {
		r := c.Rand(fmt.Sprintf("psk-cfg-%d", ci))
		ks := genKeySet(r)
		keys := make([]string, len(ks))
		for i, k := range ks {
			keys[i] = k.k
		}
		a, err := presharedkey.NewPresharedKeyAuthenticator(keys)
		if err != nil {
			c.HarnessError("NewPresharedKeyAuthenticator(%d keys): %v", len(keys), err)
			return
		}
		type tagged struct {
			pskCase
			shape string
		}
		var cases []tagged
		for _, sc := range staticCases() {
			cases = append(cases, tagged{sc, "-"})
		}
		for i := range keys {
			for _, pc := range deriveCases(r, keys, i) {
				cases = append(cases, tagged{pc, ks[i].shape})
			}
		}
		for _, tc := range cases {
			hdr := tc.hdr
			if tc.outOnly || tc.noMD {
				hdr = nil
			}
			want, judged := pskOracle(keys, hdr)
			obs := observeAuth(a, tc.ctx())
			ws := map[bool]string{true: "accept", false: "reject"}[want]
			if !judged {
				ws = "unjudged"
			}
			c.Case(fmt.Sprintf("psk|%s|%s|n=%d|%s", tc.class, tc.shape, len(keys), ws), true)
			c.Seen("psk_classes", tc.class)
			witness := func() any {
				qk := make([]string, len(keys))
				for i, k := range keys {
					qk[i] = quoteShort(k)
				}
				qh := make([]string, len(tc.hdr))
				for i, h := range tc.hdr {
					qh[i] = quoteShort(h)
				}
				return map[string]any{"part": "psk", "config_index": ci, "rand_label": fmt.Sprintf("psk-cfg-%d", ci), "keys_go_quoted": qk,
					"class": tc.class, "authorization_values_go_quoted": qh, "header_absent": tc.hdr == nil, "outgoing_only": tc.outOnly,
					"oracle_accept": want, "judged": judged, "observed": map[string]any{"Authenticate": obs.direct, "AuthFunc": obs.mw, "interceptor_handler_reached": obs.icpt}}
			}
			if obs.panicked != "" {
				c.Violation("", "psk|panic|"+tc.class, "presharedkey authentication panicked: "+obs.panicked, witness())
				continue
			}
			if obs.direct != obs.mw || obs.direct != obs.icpt {
				c.Violation("", "psk|paths-disagree|"+tc.class, fmt.Sprintf("preshared-key: Authenticate=%v, middleware AuthFunc=%v, interceptor reached handler=%v disagree (class %s)", obs.direct, obs.mw, obs.icpt, tc.class), witness())
				continue
			}
			if !judged {
				nUnj++
				c.Count("psk_unjudged_accepted", b2i(obs.direct))
				continue
			}
			if obs.direct {
				nAcc++
			} else {
				nRej++
			}
			if obs.direct != want {
				c.Violation("", fmt.Sprintf("psk|%s|want=%s", tc.class, ws),
					fmt.Sprintf("preshared-key: request of class %q was %s but the token is %s the configured keys (keys=%d, shape=%s)",
						tc.class, map[bool]string{true: "ACCEPTED", false: "REJECTED"}[obs.direct], map[bool]string{true: "byte-equal to one of", false: "not byte-equal to any of"}[want], len(keys), tc.shape), witness())
			}
		}
		if ci < 2 {
			c.Sample(map[string]any{"part": "psk", "keys": func() []string {
				q := make([]string, len(keys))
				for i, k := range keys {
					q[i] = quoteShort(k)
				}
				return q
			}(), "cases": len(cases)})
		}
	}
	c.Count("psk_key_sets", nCfg)
	c.Count("psk_accepted", nAcc)
	c.Count("psk_rejected", nRej)
	c.Count("psk_unjudged", nUnj)
	if nAcc == 0 || nRej == 0 {
		c.HarnessError("psk part vacuous: accepted=%d rejected=%d", nAcc, nRej)
	}
	c.Logf("psk: %d key sets, accepted=%d rejected=%d unjudged=%d", nCfg, nAcc, nRej, nUnj)
}

func b2i(b bool) int {
	if b {
		return 1
	}
	return 0
}
