package storekit

import (
	"context"
	"database/sql/driver"
	"errors"
	"io"
	"sync"
	"sync/atomic"
)

// Op describes one driver-level call made by database/sql on behalf of the datastore.
type Op struct {
	Seq  int64  // sequence number over the whole connector (1-based)
	Conn int64  // connection id (1-based, in order of opening)
	Kind string // open, begin, exec, query, next, commit, rollback, prepare, close
	SQL  string // statement text (exec/query/prepare)
	InTx bool   // the connection has an open driver transaction

	c *wconn
}

// BreakConn simulates the loss of the connection: open cursors are closed, the real connection is
// closed at once (the database rolls back whatever transaction was open on it) and every later call
// on it reports driver.ErrBadConn.
func (o *Op) BreakConn() {
	if o.c != nil {
		o.c.breakConn()
	}
}

// Hook observes and perturbs driver calls. Both methods may be called from several goroutines.
type Hook interface {
	// Before runs before the real call; a non-nil error is reported to database/sql and the real
	// call is NOT performed.
	Before(op *Op) error
	// After runs after the real call and decides which error is reported (usually err).
	After(op *Op, err error) error
}

// Connector is a database/sql connector that interposes Hook on every call of the inner driver.
type Connector struct {
	Inner driver.Driver
	DSN   string
	Hook  Hook

	seq   atomic.Int64
	conns atomic.Int64
}

func (k *Connector) Driver() driver.Driver { return k.Inner }

func (k *Connector) newOp(c *wconn, kind, sql string) *Op {
	op := &Op{Seq: k.seq.Add(1), Kind: kind, SQL: sql, c: c}
	if c != nil {
		op.Conn = c.id
		op.InTx = c.inTx.Load()
	}
	return op
}

func (k *Connector) Connect(ctx context.Context) (driver.Conn, error) {
	op := k.newOp(nil, "open", "")
	op.Conn = k.conns.Add(1)
	if err := k.Hook.Before(op); err != nil {
		return nil, err
	}
	in, err := k.Inner.Open(k.DSN)
	err = k.Hook.After(op, err)
	if err != nil {
		if in != nil {
			_ = in.Close()
		}
		return nil, err
	}
	return &wconn{k: k, in: in, id: op.Conn}, nil
}

type wconn struct {
	k      *Connector
	in     driver.Conn
	id     int64
	inTx   atomic.Bool
	mu     sync.Mutex
	broken bool
	closed bool
	rows   map[*wrows]struct{}
	curTx  driver.Tx
}

func (c *wconn) isBroken() bool { c.mu.Lock(); defer c.mu.Unlock(); return c.broken }

func (c *wconn) breakConn() {
	c.mu.Lock()
	if c.broken {
		c.mu.Unlock()
		return
	}
	c.broken = true
	rows := c.rows
	c.rows = nil
	closed := c.closed
	c.closed = true
	c.mu.Unlock()
	for r := range rows {
		_ = r.in.Close()
	}
	if !closed {
		_ = c.in.Close()
	}
	c.inTx.Store(false)
}

// do runs one call through the hook.
func (c *wconn) do(kind, sql string, real func() error) error {
	if c.isBroken() {
		return driver.ErrBadConn
	}
	op := c.k.newOp(c, kind, sql)
	if err := c.k.Hook.Before(op); err != nil {
		return err
	}
	if c.isBroken() {
		return driver.ErrBadConn
	}
	err := real()
	return c.k.Hook.After(op, err)
}

func (c *wconn) Prepare(query string) (driver.Stmt, error) {
	return c.PrepareContext(context.Background(), query)
}

func (c *wconn) PrepareContext(ctx context.Context, query string) (driver.Stmt, error) {
	var st driver.Stmt
	prepared := false
	err := c.do("prepare", query, func() (e error) {
		st, e = c.in.(driver.ConnPrepareContext).PrepareContext(ctx, query)
		prepared = e == nil
		return e
	})
	if err != nil {
		if prepared && !c.isBroken() {
			_ = st.Close()
		}
		return nil, err
	}
	return st, nil
}

func (c *wconn) Close() error {
	c.mu.Lock()
	if c.closed {
		c.mu.Unlock()
		return nil
	}
	c.closed = true
	c.mu.Unlock()
	op := c.k.newOp(c, "close", "")
	_ = c.k.Hook.Before(op)
	err := c.in.Close()
	return c.k.Hook.After(op, err)
}

func (c *wconn) Begin() (driver.Tx, error) {
	return c.BeginTx(context.Background(), driver.TxOptions{})
}

func (c *wconn) BeginTx(ctx context.Context, opts driver.TxOptions) (driver.Tx, error) {
	var tx driver.Tx
	began := false
	err := c.do("begin", "", func() (e error) {
		tx, e = c.in.(driver.ConnBeginTx).BeginTx(ctx, opts)
		if e == nil {
			began = true
			c.inTx.Store(true)
			c.mu.Lock()
			c.curTx = tx
			c.mu.Unlock()
		}
		return e
	})
	if err != nil {
		if began && !c.isBroken() {
			_ = tx.Rollback()
			c.inTx.Store(false)
		}
		return nil, err
	}
	return &wtx{c: c, in: tx}, nil
}

func (c *wconn) ExecContext(ctx context.Context, query string, args []driver.NamedValue) (driver.Result, error) {
	var res driver.Result
	err := c.do("exec", query, func() (e error) {
		res, e = c.in.(driver.ExecerContext).ExecContext(ctx, query, args)
		return e
	})
	if err != nil {
		return nil, err
	}
	return res, nil
}

func (c *wconn) QueryContext(ctx context.Context, query string, args []driver.NamedValue) (driver.Rows, error) {
	var w *wrows
	err := c.do("query", query, func() error {
		rows, e := c.in.(driver.QueryerContext).QueryContext(ctx, query, args)
		if e != nil {
			return e
		}
		// registered before the hook's After runs, so that BreakConn can close the cursor first
		w = &wrows{c: c, in: rows, sql: query}
		c.mu.Lock()
		if c.rows == nil {
			c.rows = map[*wrows]struct{}{}
		}
		c.rows[w] = struct{}{}
		c.mu.Unlock()
		return nil
	})
	if err != nil {
		if w != nil {
			_ = w.Close()
		}
		return nil, err
	}
	return w, nil
}

func (c *wconn) Ping(ctx context.Context) error {
	if c.isBroken() {
		return driver.ErrBadConn
	}
	if p, ok := c.in.(driver.Pinger); ok {
		return p.Ping(ctx)
	}
	return nil
}

func (c *wconn) ResetSession(ctx context.Context) error {
	if c.isBroken() {
		return driver.ErrBadConn
	}
	if r, ok := c.in.(driver.SessionResetter); ok {
		return r.ResetSession(ctx)
	}
	return nil
}

func (c *wconn) IsValid() bool {
	if c.isBroken() {
		return false
	}
	if v, ok := c.in.(driver.Validator); ok {
		return v.IsValid()
	}
	return true
}

type wtx struct {
	c  *wconn
	in driver.Tx
}

func (t *wtx) Commit() error {
	err := t.c.do("commit", "", func() error {
		e := t.in.Commit()
		if e == nil {
			t.c.inTx.Store(false)
			t.c.mu.Lock()
			t.c.curTx = nil
			t.c.mu.Unlock()
		}
		return e
	})
	return err
}

func (t *wtx) Rollback() error {
	return t.c.do("rollback", "", func() error {
		e := t.in.Rollback()
		t.c.inTx.Store(false)
		t.c.mu.Lock()
		t.c.curTx = nil
		t.c.mu.Unlock()
		return e
	})
}

// RollbackInner rolls the real transaction back without going through the hook (used by a hook
// that models a COMMIT failing with an error after which the database has aborted the transaction).
func (o *Op) RollbackInner() {
	if o.c == nil {
		return
	}
	o.c.mu.Lock()
	tx := o.c.curTx
	o.c.curTx = nil
	o.c.mu.Unlock()
	if tx != nil {
		_ = tx.Rollback()
		o.c.inTx.Store(false)
	}
}

type wrows struct {
	c   *wconn
	in  driver.Rows
	sql string
}

func (r *wrows) Columns() []string { return r.in.Columns() }

func (r *wrows) Close() error {
	r.c.mu.Lock()
	_, open := r.c.rows[r]
	delete(r.c.rows, r)
	r.c.mu.Unlock()
	if !open {
		return nil
	}
	return r.in.Close()
}

func (r *wrows) Next(dest []driver.Value) error {
	err := r.c.do("next", r.sql, func() error { return r.in.Next(dest) })
	if errors.Is(err, io.EOF) {
		return io.EOF
	}
	return err
}
