// Package storekit holds the small storage helpers shared by the storage-level checks: openers for
// the two datastores that can run offline (memory, sqlite on a real file with offline goose
// migrations), canonical dumps of a store's tuple set and changelog, and (sqlwrap.go) an
// interposing database/sql connector for fault / schedule injection below the sqlite datastore.
package storekit

import (
	"context"
	"database/sql"
	"database/sql/driver"
	"encoding/json"
	"errors"
	"fmt"
	"os"
	"path/filepath"
	"sort"
	"sync"
	"sync/atomic"
	"time"

	openfgav1 "github.com/openfga/api/proto/openfga/v1"
	"google.golang.org/protobuf/types/known/structpb"

	"github.com/openfga/openfga/pkg/storage"
	"github.com/openfga/openfga/pkg/storage/memory"
	"github.com/openfga/openfga/pkg/storage/migrate"
	"github.com/openfga/openfga/pkg/storage/sqlcommon"
	"github.com/openfga/openfga/pkg/storage/sqlite"
)

// OpenMemory returns a fresh in-memory datastore.
func OpenMemory() storage.OpenFGADatastore { return memory.New() }

var (
	migrateMu sync.Mutex // goose keeps global state
	fileSeq   atomic.Int64
)

// ScratchDir returns $VERIF_SCRATCH (the per-run directory removed by run.sh).
func ScratchDir() (string, error) {
	d := os.Getenv("VERIF_SCRATCH")
	if d == "" {
		return "", errors.New("VERIF_SCRATCH is not set")
	}
	return d, nil
}

// SqliteURI is the connection URI used for a database file (WAL, as pkg/testfixtures does).
func SqliteURI(path string) string {
	return fmt.Sprintf("file:%s?_pragma=journal_mode(WAL)&_pragma=busy_timeout(5000)&_pragma=synchronous(NORMAL)", path)
}

// MigrateSqlite creates / upgrades the schema of the database file with openfga's own migrations.
func MigrateSqlite(path string) error {
	migrateMu.Lock()
	defer migrateMu.Unlock()
	return migrate.RunMigrations(migrate.MigrationConfig{
		Engine: "sqlite", URI: SqliteURI(path), Timeout: 20 * time.Second, PingTimeout: 5 * time.Second,
	})
}

// NewSqlitePath returns a fresh file name under dir.
func NewSqlitePath(dir string) string {
	return filepath.Join(dir, fmt.Sprintf("fga-%d-%d.db", os.Getpid(), fileSeq.Add(1)))
}

// OpenSqlite creates a new migrated database file under dir and opens the sqlite datastore on it.
func OpenSqlite(dir string) (storage.OpenFGADatastore, string, error) {
	path := NewSqlitePath(dir)
	if err := MigrateSqlite(path); err != nil {
		return nil, "", err
	}
	ds, err := OpenSqliteFile(path)
	return ds, path, err
}

// OpenSqliteFile opens the sqlite datastore on an existing (migrated) file.
func OpenSqliteFile(path string, opts ...sqlcommon.DatastoreOption) (storage.OpenFGADatastore, error) {
	// sqlcommon.NewDBInfo sets goose's global dialect: constructing datastores from several
	// goroutines at once is a (harmless, harness-induced) data race, so constructions are serialised.
	migrateMu.Lock()
	defer migrateMu.Unlock()
	return sqlite.New(SqliteURI(path), sqlcommon.NewConfig(opts...))
}

// OpenSqliteWrapped opens the sqlite datastore on an existing file with every driver call routed
// through hook (see sqlwrap.go). The DSN is prepared exactly as sqlite.New does.
func OpenSqliteWrapped(path string, hook Hook, opts ...sqlcommon.DatastoreOption) (storage.OpenFGADatastore, *sql.DB, error) {
	uri, err := sqlite.PrepareDSN(SqliteURI(path))
	if err != nil {
		return nil, nil, err
	}
	probe, err := sql.Open("sqlite", uri)
	if err != nil {
		return nil, nil, err
	}
	var inner driver.Driver = probe.Driver()
	_ = probe.Close()
	db := sql.OpenDB(&Connector{Inner: inner, DSN: uri, Hook: hook})
	migrateMu.Lock()
	ds, err := sqlite.NewWithDB(db, sqlcommon.NewConfig(opts...))
	migrateMu.Unlock()
	if err != nil {
		_ = db.Close()
		return nil, nil, err
	}
	return ds, db, nil
}

// CopyFile copies a closed sqlite database file.
func CopyFile(src, dst string) error {
	b, err := os.ReadFile(src)
	if err != nil {
		return err
	}
	return os.WriteFile(dst, b, 0o644)
}

// ---------------------------------------------------------------------------------------------
// canonical dumps

// CondString is the canonical text of a relationship condition: "" for none, else
// name + deterministic JSON of the context (a nil context and an empty one are both "{}").
func CondString(c *openfgav1.RelationshipCondition) string {
	if c == nil || c.GetName() == "" {
		return ""
	}
	return c.GetName() + CtxString(c.GetContext())
}

// CtxString renders a context struct deterministically (encoding/json sorts map keys).
func CtxString(s *structpb.Struct) string {
	if s == nil || len(s.GetFields()) == 0 {
		return "{}"
	}
	b, err := json.Marshal(s.AsMap())
	if err != nil {
		return "!" + err.Error()
	}
	return string(b)
}

// BaseKey is object#relation@user.
func BaseKey(object, relation, user string) string { return object + "#" + relation + "@" + user }

// TupleRow is one stored tuple.
type TupleRow struct {
	Key  string `json:"key"`            // object#relation@user
	Cond string `json:"cond,omitempty"` // CondString
	TS   string `json:"ts,omitempty"`   // RFC3339Nano timestamp as returned by the store
}

// ChangeRow is one changelog entry.
type ChangeRow struct {
	Op   string    `json:"op"` // "W" or "D"
	Key  string    `json:"key"`
	Cond string    `json:"cond,omitempty"`
	TS   string    `json:"ts,omitempty"`
	Time time.Time `json:"-"`
}

// Sem is the row without its timestamp.
func (t TupleRow) Sem() string { return t.Key + " [" + t.Cond + "]" }

// Sem is the entry without its timestamp.
func (c ChangeRow) Sem() string { return c.Op + " " + c.Key + " [" + c.Cond + "]" }

// ChangeRowOf converts an API change.
func ChangeRowOf(ch *openfgav1.TupleChange) ChangeRow {
	op := "?"
	switch ch.GetOperation() {
	case openfgav1.TupleOperation_TUPLE_OPERATION_WRITE:
		op = "W"
	case openfgav1.TupleOperation_TUPLE_OPERATION_DELETE:
		op = "D"
	}
	k := ch.GetTupleKey()
	t := ch.GetTimestamp().AsTime()
	return ChangeRow{Op: op, Key: BaseKey(k.GetObject(), k.GetRelation(), k.GetUser()), Cond: CondString(k.GetCondition()),
		TS: t.UTC().Format(time.RFC3339Nano), Time: t}
}

// Snapshot is the observable state of one store: its tuples (sorted by key) and its changelog (ascending).
type Snapshot struct {
	Tuples []TupleRow  `json:"tuples"`
	Log    []ChangeRow `json:"log"`
}

// DumpTuples reads the whole tuple set of a store with one Read (empty filter), sorted by key.
func DumpTuples(ctx context.Context, ds storage.RelationshipTupleReader, store string) ([]TupleRow, error) {
	it, err := ds.Read(ctx, store, storage.ReadFilter{}, storage.ReadOptions{})
	if err != nil {
		return nil, err
	}
	defer it.Stop()
	var out []TupleRow
	for {
		t, err := it.Next(ctx)
		if err != nil {
			if errors.Is(err, storage.ErrIteratorDone) {
				break
			}
			return nil, err
		}
		k := t.GetKey()
		out = append(out, TupleRow{Key: BaseKey(k.GetObject(), k.GetRelation(), k.GetUser()), Cond: CondString(k.GetCondition()),
			TS: t.GetTimestamp().AsTime().UTC().Format(time.RFC3339Nano)})
	}
	sort.Slice(out, func(i, j int) bool { return out[i].Key < out[j].Key })
	return out, nil
}

// ErrNoProgress: a paginated walk returned more entries than the store can hold.
var ErrNoProgress = errors.New("WalkChanges: pagination does not terminate (more entries returned than the store can hold)")

// WalkChangesMax is WalkChanges with a bound on the number of entries (a walk that exceeds it is
// reported as ErrNoProgress): pass the number of entries the store can possibly hold.
func WalkChangesMax(ctx context.Context, ds storage.ChangelogBackend, store string, filter storage.ReadChangesFilter, desc bool, pageSize, maxEntries int) ([]ChangeRow, error) {
	var out []ChangeRow
	from := ""
	for {
		page, tok, err := ds.ReadChanges(ctx, store, filter, storage.ReadChangesOptions{
			Pagination: storage.PaginationOptions{PageSize: pageSize, From: from}, SortDesc: desc,
		})
		if err != nil {
			if errors.Is(err, storage.ErrNotFound) {
				return out, nil
			}
			return out, err
		}
		for _, ch := range page {
			out = append(out, ChangeRowOf(ch))
		}
		if len(page) == 0 || tok == "" {
			return out, nil
		}
		if len(out) > maxEntries {
			return out, ErrNoProgress
		}
		from = tok
	}
}

// WalkChanges pages through ds.ReadChanges until exhaustion (ErrNotFound or a short/empty page).
func WalkChanges(ctx context.Context, ds storage.ChangelogBackend, store string, filter storage.ReadChangesFilter, desc bool, pageSize int) ([]ChangeRow, error) {
	var out []ChangeRow
	from := ""
	for guard := 0; guard < 1_000_000; guard++ {
		page, tok, err := ds.ReadChanges(ctx, store, filter, storage.ReadChangesOptions{
			Pagination: storage.PaginationOptions{PageSize: pageSize, From: from}, SortDesc: desc,
		})
		if err != nil {
			if errors.Is(err, storage.ErrNotFound) {
				return out, nil
			}
			return out, err
		}
		if len(page) == 0 {
			return out, nil
		}
		for _, ch := range page {
			out = append(out, ChangeRowOf(ch))
		}
		if tok == "" {
			return out, nil
		}
		if len(out) > 200000 {
			return out, ErrNoProgress
		}
		from = tok
	}
	return out, errors.New("WalkChanges: pagination does not terminate")
}

// DumpChanges returns the full ascending changelog (horizon 0, no type filter).
func DumpChanges(ctx context.Context, ds storage.ChangelogBackend, store string) ([]ChangeRow, error) {
	return WalkChanges(ctx, ds, store, storage.ReadChangesFilter{}, false, 100)
}

// Dump reads tuples and changelog.
func Dump(ctx context.Context, ds storage.OpenFGADatastore, store string) (Snapshot, error) {
	t, err := DumpTuples(ctx, ds, store)
	if err != nil {
		return Snapshot{}, fmt.Errorf("dump tuples: %w", err)
	}
	l, err := DumpChanges(ctx, ds, store)
	if err != nil {
		return Snapshot{}, fmt.Errorf("dump changelog: %w", err)
	}
	return Snapshot{Tuples: t, Log: l}, nil
}

// Raw renders the snapshot including timestamps (for "nothing changed at all" comparisons).
func (s Snapshot) Raw() string {
	b, _ := json.Marshal(s)
	return string(b)
}

// SemTuples renders the tuple set without timestamps.
func (s Snapshot) SemTuples() []string {
	out := make([]string, 0, len(s.Tuples))
	for _, t := range s.Tuples {
		out = append(out, t.Sem())
	}
	return out
}

// SemLog renders the changelog without timestamps.
func (s Snapshot) SemLog() []string {
	out := make([]string, 0, len(s.Log))
	for _, c := range s.Log {
		out = append(out, c.Sem())
	}
	return out
}

// Replay applies a changelog (oldest first) to the empty store and returns the resulting tuple set
// rendered like SemTuples (sorted by key). A delete removes the key; a write sets key -> condition.
func Replay(log []ChangeRow) []string {
	m := map[string]string{}
	for _, c := range log {
		switch c.Op {
		case "W":
			m[c.Key] = c.Cond
		case "D":
			delete(m, c.Key)
		}
	}
	keys := make([]string, 0, len(m))
	for k := range m {
		keys = append(keys, k)
	}
	sort.Strings(keys)
	out := make([]string, 0, len(keys))
	for _, k := range keys {
		out = append(out, TupleRow{Key: k, Cond: m[k]}.Sem())
	}
	return out
}

// EqualStrings compares two string slices.
func EqualStrings(a, b []string) bool {
	if len(a) != len(b) {
		return false
	}
	for i := range a {
		if a[i] != b[i] {
			return false
		}
	}
	return true
}
