// Package c15 decides property C15 "The changelog faithfully records tuple history":
// replaying ReadChanges (oldest first) onto the empty store reproduces the current tuples, one entry
// per effective write/delete, nothing for failed or skipped items, descending = reverse(ascending),
// type-filtered walks = filter of the full walk, entries newer than the horizon are withheld.
package c15

import (
	"context"
	"fmt"
	"sort"
	"strings"

	openfgav1 "github.com/openfga/api/proto/openfga/v1"
	"google.golang.org/protobuf/types/known/wrapperspb"

	"github.com/openfga/openfga/pkg/storage"

	"github.com/openfga/openfga/verifharness/checks/storekit"
	th "github.com/openfga/openfga/verifharness/checks/tuplehist"
	"github.com/openfga/openfga/verifharness/vk"
)

func init() { vk.Register("C15", "exploration", run) }

func run(c *vk.Ctx) {
	c.SetRule("histories: one case per random Write history (tuplehist generator: 6-tuple universe x 5 condition variants, all on_duplicate/on_missing combinations, deliberately failing and invalid requests, delete + re-write with another condition) driven through Server.Write on memory and sqlite, then walked by Server.ReadChanges (page sizes 1,2,7,100), per object type, and by the descending datastore walk; signature = backend|#requests acknowledged/rejected|#log entries|#keys re-written after delete|#skipped no-op items (bucketed); non-trivial = the log has >=3 entries and at least one rejected or skipped item. " +
		"horizon: one case per paced scenario (old batch, sleep > horizon, young batch, read with horizon, sleep, read again); forced-schedule: one case per two-writer schedule in which the first writer's BEGIN is delayed behind a complete second Write.")
	c.Assume("the reference for 'effective write/delete' is the sequential model of package tuplehist (documented Write semantics); a request on which model and server disagree is C12's business and ends the history as inconclusive here")
	c.Assume("horizon verdicts use the store's own change timestamps against the wall-clock bracket [call start, call end] of each ReadChanges call with a 100 ms safety margin, on a machine whose clock is not stepped during the run; changes whose age is inside the margin are not judged")
	c.Assume("delete entries are compared by tuple key only (the condition of a deleted tuple is not part of the property)")

	ctx := context.Background()
	dir, err := storekit.ScratchDir()
	if err != nil {
		c.HarnessError("%v", err)
		return
	}
	runHistories(ctx, c, dir)
	runHorizon(ctx, c, dir)
	runDelayedBegin(ctx, c, dir)
}

// norm drops the condition of delete entries and renders entries without timestamps.
func norm(log []storekit.ChangeRow) []string {
	out := make([]string, 0, len(log))
	for _, e := range log {
		if e.Op == "D" {
			e.Cond = ""
		}
		out = append(out, e.Sem())
	}
	return out
}

func typeOfEntry(sem string) string { // "W doc:1#viewer@user:a [..]" -> doc
	f := strings.Fields(sem)
	if len(f) < 2 {
		return ""
	}
	if i := strings.Index(f[1], ":"); i >= 0 {
		return f[1][:i]
	}
	return ""
}

// sameModuloRequestOrder compares a walk with the model log; entries of one request may come in any order.
func sameModuloRequestOrder(walk, model []string, bounds []int, typ string) bool {
	pos := 0
	prev := 0
	for _, b := range bounds {
		var seg []string
		for _, e := range model[prev:b] {
			if typ == "" || typeOfEntry(e) == typ {
				seg = append(seg, e)
			}
		}
		prev = b
		if pos+len(seg) > len(walk) {
			return false
		}
		got := append([]string(nil), walk[pos:pos+len(seg)]...)
		sort.Strings(got)
		sort.Strings(seg)
		if !storekit.EqualStrings(got, seg) {
			return false
		}
		pos += len(seg)
	}
	return pos == len(walk)
}

// serverWalk pages through Server.ReadChanges.
func serverWalk(ctx context.Context, env *th.Env, typ string, pageSize int32, maxEntries int) (log []storekit.ChangeRow, pages int, err error) {
	token := ""
	for len(log) <= maxEntries {
		resp, err := env.Srv.ReadChanges(ctx, &openfgav1.ReadChangesRequest{
			StoreId: env.Store, Type: typ, PageSize: wrapperspb.Int32(pageSize), ContinuationToken: token,
		})
		if err != nil {
			return log, pages, err
		}
		if len(resp.GetChanges()) == 0 {
			return log, pages, nil
		}
		if len(resp.GetChanges()) > int(pageSize) {
			return log, pages, fmt.Errorf("page of %d entries for page_size %d", len(resp.GetChanges()), pageSize)
		}
		pages++
		for _, ch := range resp.GetChanges() {
			log = append(log, storekit.ChangeRowOf(ch))
		}
		token = resp.GetContinuationToken()
		if token == "" {
			return log, pages, nil
		}
	}
	return log, pages, fmt.Errorf("Server.ReadChanges pagination does not terminate: %d entries returned and still a continuation token with more", len(log))
}

type histWitness struct {
	Backend  string            `json:"backend"`
	History  int               `json:"history"`
	Requests []reqRecord       `json:"requests"`
	Walk     string            `json:"walk"`
	Got      []string          `json:"walk_entries"`
	ModelLog []string          `json:"model_log"`
	Bounds   []int             `json:"model_log_request_bounds"`
	Tuples   []string          `json:"current_tuples"`
	Replayed []string          `json:"replay_of_walk,omitempty"`
	Full     []storekit.ChangeRow `json:"ascending_datastore_walk,omitempty"`
}

type reqRecord struct {
	Req   string `json:"request"`
	Acked bool   `json:"acknowledged"`
	Err   string `json:"error,omitempty"`
	Model string `json:"model"`
}

func filterTuples(t []string, typ string) []string {
	if typ == "" {
		return t
	}
	var out []string
	for _, s := range t {
		if strings.HasPrefix(s, typ+":") {
			out = append(out, s)
		}
	}
	return out
}

func bucket(n int) string {
	switch {
	case n == 0:
		return "0"
	case n <= 2:
		return "1-2"
	case n <= 5:
		return "3-5"
	case n <= 12:
		return "6-12"
	}
	return ">12"
}

func runHistories(ctx context.Context, c *vk.Ctx, dir string) {
	histories := c.Pick(60, 1500)
	for _, be := range []string{"memory", "sqlite"} {
		root, err := th.OpenEnv(ctx, be, dir)
		if err != nil {
			c.HarnessError("open %s: %v", be, err)
			return
		}
		rng := c.Rand("hist|" + be)
		for h := 0; h < histories; h++ {
			env, err := root.Fork(ctx)
			if err != nil {
				c.HarnessError("fork: %v", err)
				break
			}
			steps := 6 + rng.Intn(c.Pick(30, 50))
			g := &th.Gen{R: rng}
			m := th.NewModel()
			var bounds []int
			var recs []reqRecord
			acked, rejected, skipped, rewrites := 0, 0, 0, 0
			deleted := map[string]bool{}
			disagree := false
			for s := 0; s < steps && !disagree; s++ {
				r := g.Next(m)
				pm := m.Clone()
				out := m.Apply(r)
				werr, panicked := env.Write(ctx, r)
				rec := reqRecord{Req: r.String(), Acked: werr == nil, Model: fmt.Sprintf("%+v", out)}
				if werr != nil {
					rec.Err = werr.Error()
				}
				recs = append(recs, rec)
				switch {
				case panicked:
					c.Violation("C15-write-panic", "panic|"+be, "Server.Write panicked: "+werr.Error(), recs)
					disagree = true
				case werr == nil && out.Accepted:
					acked++
					skipped += out.SkipDelete + out.SkipWrite
					for _, e := range m.Log[len(pm.Log):] {
						k := strings.Fields(e)[1]
						if e[0] == 'D' {
							deleted[k] = true
						} else if deleted[k] {
							rewrites++
							deleted[k] = false
						}
					}
					bounds = append(bounds, len(m.Log))
				case werr != nil && !out.Accepted:
					rejected++
				case werr != nil && out.Accepted:
					// server refused something the model accepts: nothing may have been logged; go on from the old state
					m.T, m.Log = pm.T, pm.Log
					rejected++
					c.Count("server_rejected_model_accepted", 1)
				default:
					c.Inconclusive("server accepted a request the model rejects (see C12)")
					disagree = true
				}
			}
			if disagree {
				continue
			}
			cur, err := storekit.DumpTuples(ctx, env.DS, env.Store)
			if err != nil {
				c.HarnessError("dump tuples: %v", err)
				break
			}
			curSem := storekit.Snapshot{Tuples: cur}.SemTuples()
			w := func(walk string, got []string) histWitness {
				return histWitness{Backend: be, History: h, Requests: recs, Walk: walk, Got: got, ModelLog: m.Log, Bounds: bounds, Tuples: curSem}
			}
			nontrivial := len(m.Log) >= 3 && (rejected > 0 || skipped > 0)
			c.Case(fmt.Sprintf("hist|%s|ack=%s|rej=%s|log=%s|rewrite=%s|skip=%s", be, bucket(acked), bucket(rejected), bucket(len(m.Log)), bucket(rewrites), bucket(skipped)), nontrivial)
			c.Count("histories_"+be, 1)
			c.Count("requests_acknowledged", acked)
			c.Count("requests_rejected", rejected)
			c.Count("noop_items_skipped", skipped)
			c.Count("keys_rewritten_after_delete", rewrites)
			c.Count("model_log_entries", len(m.Log))
			if h < 2 && be == "sqlite" {
				c.Sample(map[string]any{"backend": be, "requests": recs, "model_log": m.Log, "tuples": curSem})
			}

			// --- ascending walks through the API, several page sizes, with and without type filter
			for _, typ := range []string{"", "doc", "docs", "user"} {
				for _, ps := range []int32{1, 2, 7, 100} {
					if typ != "" && ps != 1 && ps != 100 {
						continue
					}
					name := fmt.Sprintf("Server.ReadChanges(type=%q,page_size=%d)", typ, ps)
					log, pages, err := serverWalk(ctx, env, typ, ps, 2*len(m.Log)+10)
					if err != nil {
						c.Violation("C15-walk-error", "walkerr|"+be+"|"+typ, fmt.Sprintf("[%s] %s failed: %v", be, name, err), w(name, norm(log)))
						continue
					}
					c.Count("api_walks", 1)
					c.Count("api_pages", pages)
					got := norm(log)
					want := 0
					for _, e := range m.Log {
						if typ == "" || typeOfEntry(e) == typ {
							want++
						}
					}
					if len(got) != want {
						id := "C15-entry-count"
						if typ != "" {
							id = "C15-type-filter"
						}
						c.Violation(id, id+"|"+be+fmt.Sprint(ps == 1), fmt.Sprintf("[%s] %s returned %d entries; the acknowledged requests made %d effective writes+deletes (failed and skipped items add none)", be, name, len(got), want), w(name, got))
						continue
					}
					if !sameModuloRequestOrder(got, m.Log, bounds, typ) {
						id := "C15-log-content"
						if typ != "" {
							id = "C15-type-filter"
						}
						c.Violation(id, id+"|content|"+be, fmt.Sprintf("[%s] %s does not list the effective writes/deletes of the acknowledged requests in request order", be, name), w(name, got))
						continue
					}
					if rep := storekit.Replay(log); !storekit.EqualStrings(rep, filterTuples(curSem, typ)) {
						ww := w(name, got)
						ww.Replayed = rep
						c.Violation("C15-replay-mismatch", "replay|"+be+"|"+typ, fmt.Sprintf("[%s] replaying %s onto the empty store gives %v but the store holds %v", be, name, rep, filterTuples(curSem, typ)), ww)
					}
					for i := 1; i < len(log); i++ {
						if log[i].Time.Before(log[i-1].Time) {
							c.Violation("C15-timestamps-decrease", "ts|"+be, fmt.Sprintf("[%s] %s: entry %d has timestamp %s before its predecessor's %s", be, name, i, log[i].TS, log[i-1].TS), w(name, got))
							break
						}
					}
				}
			}

			// --- descending datastore walks = exact reverse of the ascending datastore walk
			for _, typ := range []string{"", "doc", "docs"} {
				filter := storage.ReadChangesFilter{ObjectType: typ}
				asc, err := storekit.WalkChangesMax(ctx, env.DS, env.Store, filter, false, 100, 2*len(m.Log)+10)
				if err != nil {
					c.Violation("C15-walk-error", "walkerr|asc|"+be, fmt.Sprintf("[%s] ascending datastore walk (type=%q) failed: %v", be, typ, err), w("ascending datastore walk", norm(asc)))
					continue
				}
				for _, ps := range []int{1, 3, 100} {
					desc, err := storekit.WalkChangesMax(ctx, env.DS, env.Store, filter, true, ps, 2*len(m.Log)+10)
					name := fmt.Sprintf("datastore ReadChanges(desc,type=%q,page_size=%d)", typ, ps)
					if err != nil {
						c.Violation("C15-walk-error", "walkerr|desc|"+be, fmt.Sprintf("[%s] %s failed: %v", be, name, err), w(name, norm(desc)))
						continue
					}
					c.Count("descending_walks", 1)
					ok := len(desc) == len(asc)
					for i := 0; ok && i < len(desc); i++ {
						a := asc[len(asc)-1-i]
						ok = a.Sem() == desc[i].Sem() && a.TS == desc[i].TS
					}
					if !ok {
						ww := w(name, norm(desc))
						ww.Full = asc
						c.Violation("C15-desc-not-reverse", "desc|"+be+fmt.Sprint(ps), fmt.Sprintf("[%s] %s (%d entries) is not the exact reverse of the ascending walk (%d entries)", be, name, len(desc), len(asc)), ww)
					}
				}
			}
		}
		root.Close()
		c.Logf("histories on %s done", be)
	}
}
