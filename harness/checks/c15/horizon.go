package c15

import (
	"context"
	"errors"
	"fmt"
	"sync"
	"time"

	"github.com/openfga/openfga/pkg/server"
	"github.com/openfga/openfga/pkg/storage"

	"github.com/openfga/openfga/verifharness/checks/storekit"
	th "github.com/openfga/openfga/verifharness/checks/tuplehist"
	"github.com/openfga/openfga/verifharness/vk"
)

// ---------------------------------------------------------------------------------------------
// horizon

const margin = 100 * time.Millisecond

type horizonCall struct {
	Name     string   `json:"call"`
	Horizon  string   `json:"horizon"`
	Start    string   `json:"call_start"`
	End      string   `json:"call_end"`
	Returned []string `json:"returned"`
	Full     []string `json:"full_log_with_timestamps"`
}

func stamp(log []storekit.ChangeRow) []string {
	out := make([]string, 0, len(log))
	for _, e := range log {
		out = append(out, e.TS+" "+e.Sem())
	}
	return out
}

// judgeHorizon checks one ReadChanges call made with horizon h during [start,end] against the full
// log (read later with horizon 0). from = number of entries preceding the page (pagination).
// It returns how many entries were judged "must be returned" and "must be withheld".
func judgeHorizon(c *vk.Ctx, be, name string, h time.Duration, start, end time.Time, returned, full []storekit.ChangeRow, from, pageSize int) (mustRet, mustHold int) {
	wit := horizonCall{Name: name, Horizon: h.String(), Start: start.UTC().Format(time.RFC3339Nano), End: end.UTC().Format(time.RFC3339Nano), Returned: stamp(returned), Full: stamp(full)}
	// the page must be a contiguous piece of the full ascending log starting at `from`
	if from+len(returned) > len(full) {
		c.Violation("C15-horizon-not-prefix", "hprefix|"+be, fmt.Sprintf("[%s] %s returned entries that are not in the full log", be, name), wit)
		return
	}
	for i, e := range returned {
		f := full[from+i]
		if e.Sem() != f.Sem() || e.TS != f.TS {
			c.Violation("C15-horizon-not-prefix", "hprefix|"+be, fmt.Sprintf("[%s] %s: entry %d (%s) is not entry %d of the full ascending log (%s): with a horizon the withheld changes must be the newest ones", be, name, i, e.Sem(), from+i, f.Sem()), wit)
			return
		}
	}
	for _, e := range returned {
		if e.Time.After(end.Add(-h).Add(margin)) { // certainly younger than the horizon during the whole call
			c.Violation("C15-horizon-leak", "hleak|"+be, fmt.Sprintf("[%s] %s returned change %s stamped %s although the call ended at %s: it was younger than the horizon %s during the whole call", be, name, e.Sem(), e.TS, wit.End, h), wit)
			return
		}
	}
	for i := from + len(returned); i < len(full); i++ {
		if pageSize > 0 && len(returned) >= pageSize {
			break // page full: later entries are legitimately on the next page
		}
		e := full[i]
		if e.Time.After(end.Add(-h).Add(margin)) {
			mustHold++
		}
		if !e.Time.After(start.Add(-h).Add(-margin)) { // certainly older than the horizon during the whole call
			c.Violation("C15-horizon-withheld-old", "hold|"+be, fmt.Sprintf("[%s] %s did not return change %s stamped %s although it was older than the horizon %s when the call started (%s)", be, name, e.Sem(), e.TS, h, wit.Start), wit)
			return
		}
	}
	for _, e := range returned {
		if !e.Time.After(start.Add(-h).Add(-margin)) {
			mustRet++
		}
	}
	return
}

func dsCall(ctx context.Context, env *th.Env, h time.Duration, typ string, pageSize int, from string) ([]storekit.ChangeRow, string, time.Time, time.Time, error) {
	start := time.Now()
	page, tok, err := env.DS.ReadChanges(ctx, env.Store, storage.ReadChangesFilter{ObjectType: typ, HorizonOffset: h},
		storage.ReadChangesOptions{Pagination: storage.PaginationOptions{PageSize: pageSize, From: from}})
	end := time.Now()
	if errors.Is(err, storage.ErrNotFound) {
		err = nil
	}
	var out []storekit.ChangeRow
	for _, ch := range page {
		out = append(out, storekit.ChangeRowOf(ch))
	}
	return out, tok, start, end, err
}

func runHorizon(ctx context.Context, c *vk.Ctx, dir string) {
	scenarios := c.Pick(3, 14)
	h := time.Duration(c.Pick(700, 900)) * time.Millisecond
	for _, be := range []string{"memory", "sqlite"} {
		root, err := th.OpenEnv(ctx, be, dir)
		if err != nil {
			c.HarnessError("open %s: %v", be, err)
			return
		}
		rng := c.Rand("horizon|" + be)
		for sc := 0; sc < scenarios; sc++ {
			env, err := root.Fork(ctx)
			if err != nil {
				c.HarnessError("fork: %v", err)
				break
			}
			g := &th.Gen{R: rng, NoInvalid: true}
			m := th.NewModel()
			batch := func(n int) { // until n requests have added changelog entries
				for tries := 0; n > 0 && tries < 60; tries++ {
					r := g.Next(m)
					pm := m.Clone()
					out := m.Apply(r)
					werr, _ := env.Write(ctx, r)
					if werr == nil && out.Accepted && out.EffDeletes+out.EffWrites > 0 {
						n--
					}
					if (werr == nil) != out.Accepted {
						m.T, m.Log = pm.T, pm.Log
						if werr == nil {
							c.Inconclusive("server accepted a request the model rejects (see C12)")
						}
					}
				}
			}
			batch(3 + rng.Intn(4)) // old batch
			time.Sleep(h + 3*margin)
			batch(2 + rng.Intn(3)) // young batch
			type rec struct {
				name       string
				ret        []storekit.ChangeRow
				start, end time.Time
				from, ps   int
				typ        string
			}
			var calls []rec
			// first round of calls right after the young batch: one big page, small pages, a type filter
			ret, _, s, e, err := dsCall(ctx, env, h, "", 100, "")
			if err != nil {
				c.HarnessError("ReadChanges: %v", err)
				break
			}
			calls = append(calls, rec{"ReadChanges(horizon,page_size=100) right after the young batch", ret, s, e, 0, 100, ""})
			tok, from := "", 0
			for i := 0; i < 50; i++ {
				ret, t2, s, e, err := dsCall(ctx, env, h, "", 2, tok)
				if err != nil || len(ret) == 0 {
					break
				}
				calls = append(calls, rec{fmt.Sprintf("ReadChanges(horizon,page_size=2) page %d", i), ret, s, e, from, 2, ""})
				from += len(ret)
				tok = t2
			}
			ret, _, s, e, _ = dsCall(ctx, env, h, "doc", 100, "")
			calls = append(calls, rec{"ReadChanges(horizon,type=doc)", ret, s, e, 0, 100, "doc"})
			time.Sleep(h + 3*margin)
			ret, _, s, e, _ = dsCall(ctx, env, h, "", 100, "")
			calls = append(calls, rec{"ReadChanges(horizon,page_size=100) one horizon later", ret, s, e, 0, 100, ""})
			// the references: horizon 0
			full, err := storekit.WalkChangesMax(ctx, env.DS, env.Store, storage.ReadChangesFilter{}, false, 100, 1000)
			fullDoc, err2 := storekit.WalkChangesMax(ctx, env.DS, env.Store, storage.ReadChangesFilter{ObjectType: "doc"}, false, 100, 1000)
			if err != nil || err2 != nil {
				c.Violation("C15-walk-error", "walkerr|hz|"+be, fmt.Sprintf("[%s] ascending datastore walk failed: %v %v", be, err, err2), stamp(full))
				break
			}
			if len(full) != len(m.Log) {
				c.Violation("C15-entry-count", "count|hz|"+be, fmt.Sprintf("[%s] full log has %d entries, model %d", be, len(full), len(m.Log)), stamp(full))
				continue
			}
			mustRet, mustHold := 0, 0
			for i, cl := range calls {
				ref := full
				if cl.typ == "doc" {
					ref = fullDoc
				}
				a, b := judgeHorizon(c, be, cl.name, h, cl.start, cl.end, cl.ret, ref, cl.from, cl.ps)
				if i == 0 {
					mustRet, mustHold = a, b
				}
				c.Count("horizon_calls_judged", 1)
				c.Count("horizon_entries_judged_must_return", a)
				c.Count("horizon_entries_judged_must_withhold", b)
			}
			last := calls[len(calls)-1]
			if len(last.ret) == len(full) {
				c.Count("horizon_full_log_returned_one_horizon_later", 1)
			}
			if mustRet == 0 || mustHold == 0 {
				c.Inconclusive("horizon scenario: scheduling left nothing certainly old or certainly young in the first call")
				c.Case(fmt.Sprintf("horizon|%s|unjudged", be), false)
				continue
			}
			c.Case(fmt.Sprintf("horizon|%s|old=%s|young=%s|pages=%d", be, bucket(mustRet), bucket(mustHold), len(calls)-3), true)
		}
		root.Close()

		// server option: horizon of one minute -> nothing written during this run may be returned
		env, err := th.OpenEnv(ctx, be, dir, server.WithChangelogHorizonOffset(1))
		if err != nil {
			c.HarnessError("open %s with horizon: %v", be, err)
			return
		}
		g := &th.Gen{R: rng, NoInvalid: true}
		m := th.NewModel()
		for i := 0; i < 5; i++ {
			r := g.Next(m)
			pm := m.Clone()
			out := m.Apply(r)
			if werr, _ := env.Write(ctx, r); (werr == nil) != out.Accepted {
				m.T, m.Log = pm.T, pm.Log
			}
		}
		start := time.Now()
		log, _, err := serverWalk(ctx, env, "", 100, 1000)
		end := time.Now()
		full, err2 := storekit.WalkChangesMax(ctx, env.DS, env.Store, storage.ReadChangesFilter{}, false, 100, 1000)
		if err != nil || err2 != nil {
			c.Violation("C15-walk-error", "walkerr|hzs|"+be, fmt.Sprintf("[%s] changelog walk failed: %v %v", be, err, err2), stamp(full))
		} else {
			_, hold := judgeHorizon(c, be, "Server.ReadChanges with WithChangelogHorizonOffset(1 minute)", time.Minute, start, end, log, full, 0, 100)
			c.Count("server_horizon_entries_withheld", hold)
			c.Case(fmt.Sprintf("horizon|%s|server-option|withheld=%s|returned=%d", be, bucket(hold), len(log)), hold > 0)
		}
		env.Close()
		c.Logf("horizon scenarios on %s done", be)
	}
}

// ---------------------------------------------------------------------------------------------
// forced two-writer schedule on sqlite: the first writer is delayed at BEGIN behind a whole second Write

type gateHook struct {
	mu      sync.Mutex
	armed   bool
	blocked chan struct{} // closed when the gated BEGIN has arrived
	release chan struct{} // closed to let it proceed
}

func (g *gateHook) Before(op *storekit.Op) error {
	if op.Kind != "begin" {
		return nil
	}
	g.mu.Lock()
	if !g.armed {
		g.mu.Unlock()
		return nil
	}
	g.armed = false
	blocked, release := g.blocked, g.release
	g.mu.Unlock()
	close(blocked)
	<-release
	return nil
}

func (g *gateHook) After(op *storekit.Op, err error) error { return err }

func runDelayedBegin(ctx context.Context, c *vk.Ctx, dir string) {
	rounds := c.Pick(3, 12)
	path := storekit.NewSqlitePath(dir)
	if err := storekit.MigrateSqlite(path); err != nil {
		c.HarnessError("migrate: %v", err)
		return
	}
	gate := &gateHook{}
	ds, _, err := storekit.OpenSqliteWrapped(path, gate)
	if err != nil {
		c.HarnessError("open wrapped: %v", err)
		return
	}
	root, err := th.NewEnv(ctx, "sqlite", ds)
	if err != nil {
		c.HarnessError("env: %v", err)
		return
	}
	defer root.Close()
	x := th.Universe[0]
	for round := 0; round < rounds; round++ {
		env, err := root.Fork(ctx)
		if err != nil {
			c.HarnessError("fork: %v", err)
			return
		}
		// variant 0: x absent; slow writer WRITES x[c1]; meanwhile the fast writer writes x and deletes it again.
		// variant 1: x present; slow writer DELETES x; meanwhile the fast writer deletes x and writes it again.
		variant := round % 2
		var slow th.Req
		var fast []th.Req
		switch variant {
		case 0:
			slow = th.Req{Writes: []th.Tup{x.With(x.Variants[1])}}
			fast = []th.Req{{Writes: []th.Tup{x.With(x.Variants[0])}}, {Deletes: []th.Tup{x.With(x.Variants[0])}}}
		case 1:
			if err, _ := env.Write(ctx, th.Req{Writes: []th.Tup{x.With(x.Variants[0])}}); err != nil {
				c.HarnessError("setup write: %v", err)
				return
			}
			time.Sleep(3 * time.Millisecond)
			slow = th.Req{Deletes: []th.Tup{x.With(x.Variants[0])}}
			fast = []th.Req{{Deletes: []th.Tup{x.With(x.Variants[0])}}, {Writes: []th.Tup{x.With(x.Variants[4])}}}
		}
		gate.mu.Lock()
		gate.armed, gate.blocked, gate.release = true, make(chan struct{}), make(chan struct{})
		blocked, release := gate.blocked, gate.release
		gate.mu.Unlock()
		var slowErr error
		done := make(chan struct{})
		go func() {
			defer close(done)
			slowErr, _ = env.Write(ctx, slow)
		}()
		select {
		case <-blocked:
		case <-time.After(30 * time.Second):
			c.Inconclusive("delayed-BEGIN schedule: slow writer never reached BEGIN")
			close(release)
			<-done
			continue
		}
		time.Sleep(5 * time.Millisecond) // the fast writer's requests get a later millisecond than the slow writer's
		var fastErrs []string
		for _, r := range fast {
			if err, _ := env.Write(ctx, r); err != nil {
				fastErrs = append(fastErrs, err.Error())
			}
		}
		close(release)
		<-done
		var snap storekit.Snapshot
		snap.Tuples, err = storekit.DumpTuples(ctx, env.DS, env.Store)
		if err != nil {
			c.HarnessError("dump: %v", err)
			return
		}
		snap.Log, err = storekit.WalkChangesMax(ctx, env.DS, env.Store, storage.ReadChangesFilter{}, false, 100, 1000)
		if err != nil {
			c.Violation("C15-walk-error", "walkerr|forced", fmt.Sprintf("[sqlite] changelog walk failed: %v", err), stamp(snap.Log))
			return
		}
		rep := storekit.Replay(snap.Log)
		wit := map[string]any{"schedule": []string{"slow writer: Server.Write(" + slow.String() + ") reaches BEGIN and is delayed there", "fast writer: " + fast[0].String() + " ; " + fast[1].String() + " (both complete)", "slow writer proceeds"},
			"slow_error": fmt.Sprint(slowErr), "fast_errors": fastErrs, "changelog_ascending": stamp(snap.Log), "replay": rep, "tuples": snap.SemTuples()}
		c.Case(fmt.Sprintf("delayed-begin|variant=%d|slowok=%v|fastok=%v", variant, slowErr == nil, len(fastErrs) == 0), slowErr == nil && len(fastErrs) == 0)
		c.Count("forced_schedules_run", 1)
		if slowErr != nil || len(fastErrs) > 0 {
			c.Inconclusive("delayed-BEGIN schedule: a write failed, schedule not as intended")
			continue
		}
		if !storekit.EqualStrings(rep, snap.SemTuples()) {
			c.Violation("C15-changelog-order-not-commit-order", "ulid-order",
				fmt.Sprintf("[sqlite] two overlapping Writes on one tuple: the Write that started first but committed last is listed FIRST in the changelog (its ULID is derived from the time taken before BEGIN), so replaying ReadChanges gives %v while the store holds %v", rep, snap.SemTuples()), wit)
		}
	}
	c.Logf("forced schedules done")
}
