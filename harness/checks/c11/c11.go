// Package c11: the cache controller bounds staleness after writes (history checker over hook events
// delimiting invalidation runs: after a run that started after an acknowledged write has completed, no
// request may be answered from entries populated before that write).
package c11

import (
	"fmt"
	"math/rand"
	"sort"
	"strings"
	"sync"
	"sync/atomic"
	"time"

	openfgav1 "github.com/openfga/api/proto/openfga/v1"
	parser "github.com/openfga/language/pkg/go/transformer"

	"github.com/openfga/openfga/internal/verifhook"
	"github.com/openfga/openfga/verifharness/checks/sem"
	"github.com/openfga/openfga/verifharness/drive"
	"github.com/openfga/openfga/verifharness/gen"
	"github.com/openfga/openfga/verifharness/ref"
	"github.com/openfga/openfga/verifharness/vk"
)

func init() { vk.Register("C11", "exploration", run) }

// event log of invalidation runs: one global logical clock
var (
	clock atomic.Int64
	evMu  sync.Mutex
	runs  = map[string][]runRec{} // store -> runs
	open  = map[string]int64{}    // store -> start seq of the run in progress
)

type runRec struct{ start, end int64 }

func sink(kind string, args []any) {
	if kind != "inval.start" && kind != "inval.end" {
		return
	}
	store := args[0].(string)
	seq := clock.Add(1)
	evMu.Lock()
	if kind == "inval.start" {
		open[store] = seq
	} else if st, ok := open[store]; ok {
		runs[store] = append(runs[store], runRec{st, seq})
		delete(open, store)
	}
	evMu.Unlock()
}

// completedRunAfter reports whether a run of the store started after seq and has ended.
func completedRunAfter(store string, seq int64) bool {
	evMu.Lock()
	defer evMu.Unlock()
	for _, r := range runs[store] {
		if r.start > seq {
			return true
		}
	}
	return false
}

type cfgSrv struct {
	name string
	s    *drive.Srv
}

func run(c *vk.Ctx) {
	c.SetRule("servers with the cache controller plus exactly one of {query cache, check iterator cache} (long cache TTLs, controller TTL 1 ns so that every request may trigger a run): per history, a first group of requests warms the cache, one or several tuples are written or deleted (up to 60 changes, more than one changelog page), a second group of requests (sharing sub-problems with the first) is issued while the invalidation run is still pending, the driver waits — by hook events on a logical clock, issuing trigger requests — until a run that STARTED after the write was acknowledged has ENDED, and then repeats all requests; after that point every answer must equal the reference on the current state; directed sub-problem-sharing scenarios plus seeded generated cases; 5 ms pacing sleeps keep datastore timestamps ordered like the logical events (the oracle uses event order only); " +
		"distinct_nontrivial = distinct (server, scenario kind, rewrite skeleton, reference value, whether the write flipped the reference answer) of post-invalidation requests whose reference answer was changed by the write or is not F")
	c.Assume("hook H5 (inval.start / inval.end per store) delimits invalidation runs; a request issued after inval.end is 'later'")
	c.Assume("reference semantics harness/ref")
	if !sem.Calibrate(c) {
		return
	}
	verifhook.SetSink(sink)
	defer verifhook.SetSink(nil)
	base, err := drive.New(drive.Cfg{})
	if err != nil {
		c.HarnessError("server: %v", err)
		return
	}
	defer base.Close()
	var servers []cfgSrv
	for _, x := range []struct {
		n   string
		cfg drive.Cfg
	}{
		{"controller+querycache", drive.Cfg{Controller: true, ControllerTTL: time.Nanosecond, QueryCache: true}},
		{"controller+itercache", drive.Cfg{Controller: true, ControllerTTL: time.Nanosecond, CheckIterCache: true, IterCacheTTL: time.Hour}},
		{"controller+itercache(ttl 300ms)", drive.Cfg{Controller: true, ControllerTTL: time.Nanosecond, CheckIterCache: true, IterCacheTTL: 300 * time.Millisecond}},
		// the two cache TTL settings differ (the controller uses both, whichever cache is enabled), and the
		// workload is quiet for longer than the shorter one: before the first run after the write
		// ("late-run"), or between the completed run and the repeated requests ("quiet-gap")
		{"controller+querycache(iterator ttl 150ms)|quiet-gap", drive.Cfg{Controller: true, ControllerTTL: time.Nanosecond, QueryCache: true, IterCacheTTL: 150 * time.Millisecond}},
		{"controller+itercache(query ttl 50ms)|late-run", drive.Cfg{Controller: true, ControllerTTL: time.Nanosecond, CheckIterCache: true, IterCacheTTL: time.Hour, QueryCacheTTL: 50 * time.Millisecond}},
	} {
		s, err := drive.NewShared(x.cfg, base)
		if err != nil {
			c.HarnessError("server %s: %v", x.n, err)
			return
		}
		defer s.Close()
		servers = append(servers, cfgSrv{x.n, s})
	}
	// directed: sub-problem sharing through a userset
	dsl := `model
  schema 1.1
type user
type group
  relations
    define member: [user, group#member]
type doc
  relations
    define viewer: [user, group#member]
    define blocked: [user]
    define reader: viewer but not blocked`
	m, err := parser.TransformDSLToProto(dsl)
	if err != nil {
		c.HarnessError("dsl: %v", err)
		return
	}
	for si, cs := range servers {
		for rep := 0; rep < c.Pick(3, 12); rep++ {
			store, _ := base.CreateStore("c11-directed")
			mid, err := base.WriteModel(store, m)
			if err != nil {
				c.HarnessError("model: %v", err)
				return
			}
			tuples := []*openfgav1.TupleKey{
				{Object: "group:g1", Relation: "member", User: "user:a"}, {Object: "group:g2", Relation: "member", User: "group:g1#member"},
				{Object: "doc:d1", Relation: "viewer", User: "group:g1#member"}, {Object: "doc:d2", Relation: "viewer", User: "group:g1#member"},
				{Object: "doc:d3", Relation: "viewer", User: "group:g2#member"}, {Object: "doc:d1", Relation: "blocked", User: "user:b"}, {Object: "group:g1", Relation: "member", User: "user:b"},
			}
			_ = base.WriteTuples(store, mid, tuples)
			p := &sem.Prepared{Case: &gen.Case{Name: "directed", Model: m}, Store: store, ModelID: mid, Ref: ref.NewModel(m, ref.TemplateCondEval), Stored: tuples}
			warm := []sem.Request{{Object: "doc:d1", Relation: "viewer", User: "user:a"}, {Object: "group:g2", Relation: "member", User: "user:a"}, {Object: "doc:d1", Relation: "reader", User: "user:b"}}
			second := []sem.Request{{Object: "doc:d2", Relation: "viewer", User: "user:a"}, {Object: "doc:d3", Relation: "viewer", User: "user:a"}, {Object: "doc:d2", Relation: "reader", User: "user:b"}, {Object: "doc:d3", Relation: "reader", User: "user:a"}}
			var change []*openfgav1.TupleKey
			switch rep % 3 {
			case 0:
				change = []*openfgav1.TupleKey{tuples[0]} // delete g1#member@user:a
			case 1:
				change = []*openfgav1.TupleKey{tuples[1]} // delete g2#member@g1#member
			default:
				change = []*openfgav1.TupleKey{tuples[6], tuples[0]}
			}
			history(c, cs, p, "directed", warm, second, nil, change, si*100+rep)
		}
	}
	parkedScan(c, base, m)
	// generated
	sem.RunCases(c, base, "mem", c.Pick(60, 600), gen.Options{NoConditions: true, HierarchyEvery: 3}, 0, 6, func(i int, r *rand.Rand, p *sem.Prepared, _ []*openfgav1.TupleKey) {
		cs := servers[i%len(servers)]
		subjects, _, nodes := sem.RequestSpace(r, p, 4, 1)
		rc := ref.NewCase(p.Ref, p.Stored, nil, sem.ExtraObjects(nodes, subjects)...)
		reqs := sem.SampleRequests(r, rc, nodes, subjects, 24)
		if len(reqs) < 4 {
			return
		}
		half := len(reqs) / 2
		var valid []*openfgav1.TupleKey
		for _, t := range p.Stored {
			if p.Ref.ValidForRead(t) {
				valid = append(valid, t)
			}
		}
		if len(valid) == 0 {
			return
		}
		r.Shuffle(len(valid), func(a, b int) { valid[a], valid[b] = valid[b], valid[a] })
		nDel := 1 + r.Intn(2)
		if nDel > len(valid) {
			nDel = len(valid)
		}
		var bulk []*openfgav1.TupleKey
		if i%5 == 0 { // more changes than one changelog page between two runs
			for k := 0; k < 60; k++ {
				bulk = append(bulk, &openfgav1.TupleKey{Object: fmt.Sprintf("doc:bulk%d", k), Relation: "parent", User: "folder:f1"})
			}
		}
		history(c, cs, p, "generated", reqs[:half], reqs[half:], bulk, valid[:nDel], i)
	})
	evMu.Lock()
	n := 0
	for _, rs := range runs {
		n += len(rs)
	}
	evMu.Unlock()
	c.Count("invalidation_runs_observed", n)
	if n == 0 {
		c.HarnessError("no invalidation run was observed (hook H5 missing?)")
	}
}

func history(c *vk.Ctx, cs cfgSrv, p *sem.Prepared, kind string, warm, second []sem.Request, bulk, del []*openfgav1.TupleKey, idx int) {
	ask := func(rq sem.Request) drive.Outcome {
		return cs.s.Check(drive.Req{Store: p.Store, Object: rq.Object, Relation: rq.Relation, User: rq.User})
	}
	// half of the histories resolve usersets by plain dispatch (forced default strategy): only dispatched
	// sub-problems are cached individually by the query cache
	drive.ForceStore(p.Store, []drive.Mode{"", "default"}[(idx/2)%2])
	state := map[string]*openfgav1.TupleKey{}
	for _, t := range p.Stored {
		state[t.GetObject()+"#"+t.GetRelation()+"@"+t.GetUser()] = t
	}
	cur := func() []*openfgav1.TupleKey {
		ks := make([]string, 0, len(state))
		for k := range state {
			ks = append(ks, k)
		}
		sort.Strings(ks)
		var out []*openfgav1.TupleKey
		for _, k := range ks {
			out = append(out, state[k])
		}
		return out
	}
	var extra []string
	for _, rq := range append(append([]sem.Request{}, warm...), second...) {
		extra = append(extra, rq.Object, rq.User)
	}
	before := ref.NewCase(p.Ref, cur(), nil, extra...)
	// 1. warm (twice: second pass is served from cache)
	for pass := 0; pass < 2; pass++ {
		for _, rq := range warm {
			ask(rq)
		}
	}
	time.Sleep(5 * time.Millisecond)
	// 2. the write(s)
	if len(bulk) > 0 {
		// bulk tuples may be invalid for the model: written through the permissive model when there is one
		if p.PermID != "" {
			if err := cs.s.WriteTuples(p.Store, p.PermID, bulk); err == nil {
				c.Count("bulk_changes_written", len(bulk))
			}
		}
	}
	if err := cs.s.DeleteTuples(p.Store, p.ModelID, del); err != nil {
		c.HarnessError("delete: %v", err)
		return
	}
	for _, t := range del {
		delete(state, t.GetObject()+"#"+t.GetRelation()+"@"+t.GetUser())
	}
	ack := clock.Add(1) // the write is acknowledged at this point of the logical clock
	c.Count("writes", 1)
	time.Sleep(5 * time.Millisecond)
	if strings.HasSuffix(cs.name, "|late-run") {
		time.Sleep(120 * time.Millisecond) // pacing only: nothing is asked, so no run starts meanwhile
		c.Count("histories_with_late_first_run", 1)
	}
	after := ref.NewCase(p.Ref, cur(), nil, extra...)
	// Clean mode (every other history): nothing that shares a sub-problem with the judged requests is asked
	// while the invalidation is pending — the run is triggered by requests on an object that has no tuples.
	// The listed transitive-staleness finding needs a pending-window request that re-stamps a stale
	// sub-problem entry; without one, a stale answer after the completed run is not explained by it.
	clean := idx%2 == 1
	trigger := func(try int) {
		if clean {
			n := warm[try%len(warm)]
			t, _ := ref.SplitObject(n.Object)
			ask(sem.Request{Object: t + ":zz", Relation: n.Relation, User: "user:zz"})
			return
		}
		ask(warm[try%len(warm)])
	}
	// 3. second group while invalidation is pending (these also trigger the run)
	if clean {
		second = nil
		c.Count("clean_histories(no_pending_window_requests)", 1)
	}
	for _, rq := range second {
		ask(rq)
	}
	// 4. wait (logically) for a run that started after the ack and ended; trigger with requests
	okRun := false
	for try := 0; try < 400; try++ {
		if completedRunAfter(p.Store, ack) {
			okRun = true
			break
		}
		trigger(try)
		time.Sleep(5 * time.Millisecond)
	}
	if !okRun {
		c.Inconclusive("no invalidation run started after the write within 400 triggers")
		return
	}
	time.Sleep(5 * time.Millisecond)
	if strings.HasSuffix(cs.name, "|quiet-gap") {
		time.Sleep(250 * time.Millisecond) // pacing only: the store and the server are left alone
		c.Count("histories_with_quiet_gap_after_the_run", 1)
	}
	// 5. every request again: must be fresh
	for _, rq := range append(append([]sem.Request{}, warm...), second...) {
		kNew := after.Eval(rq.User).K(rq.Object, rq.Relation)
		kOld := before.Eval(rq.User).K(rq.Object, rq.Relation)
		flipped := kNew != kOld
		for pass := 0; pass < 2; pass++ {
			o := ask(rq)
			c.Case(fmt.Sprintf("%s|%s|%s|flipped=%v", cs.name, kind, sem.ShapeOf(p, rq, kNew), flipped), flipped || kNew != ref.F)
			if flipped {
				c.Count("post_invalidation_requests_whose_answer_the_write_changed", 1)
			}
			v := sem.JudgeCheck(kNew, after.AnyUnevaluable(), o)
			if v == sem.Agree || v == sem.NotJudged {
				continue
			}
			stale := o.Err == nil && flipped && kOld != ref.E && (kOld == ref.T) == o.Allowed
			f := ""
			if !stale {
				f = sem.ClassifyCheck("C11", after, rq, kNew, o, "fast")
			} else if strings.Contains(cs.name, "querycache") && !clean {
				f = "C11-querycache-transitive-staleness"
			}
			w := sem.Witness(p, cs.name, "", rq, nil, kNew.String(), o.String())
			w["state_after_write"] = gen.TupleStrings(cur())
			w["deleted"] = gen.TupleStrings(del)
			w["warm_requests"] = fmt.Sprint(warm)
			w["second_group"] = fmt.Sprint(second)
			c.Violation(f, fmt.Sprintf("%s|%s|stale=%v|%s", cs.name, kind, stale, kNew),
				fmt.Sprintf("on %s, after an invalidation run that started after the write had completed, Check(%s#%s@%s) answered %s; reference on the current state %s (before the write %s)%s", cs.name, rq.Object, rq.Relation, rq.User, o, kNew, kOld, map[bool]string{true: " — STALE: served from entries populated before the write", false: ""}[stale]), w)
			break
		}
	}
	c.SampleEvery(idx, 9, func() any {
		return map[string]any{"server": cs.name, "kind": kind, "model": p.Ref.DSL(), "deleted": gen.TupleStrings(del), "warm": fmt.Sprint(warm), "second": fmt.Sprint(second)}
	})
}
