package c11

import (
	"context"
	"fmt"
	"sync"
	"time"

	openfgav1 "github.com/openfga/api/proto/openfga/v1"

	"github.com/openfga/openfga/pkg/storage"
	"github.com/openfga/openfga/verifharness/drive"
	"github.com/openfga/openfga/verifharness/gen"
	"github.com/openfga/openfga/verifharness/ref"
	"github.com/openfga/openfga/verifharness/checks/sem"
	"github.com/openfga/openfga/verifharness/vk"
)

// gateDS parks the changelog scan (ReadChanges — on these servers only the cache controller calls it) of a
// store until the driver releases it: the schedule "entry populated and tuple written while an
// invalidation run is between its start and its scan" is then reached on purpose instead of by luck.
type gateDS struct {
	storage.OpenFGADatastore
	mu    sync.Mutex
	gates map[string]*gate
}

type gate struct {
	arrived chan struct{}
	release chan struct{}
	once    sync.Once
}

func (g *gateDS) arm(store string) *gate {
	gt := &gate{arrived: make(chan struct{}), release: make(chan struct{})}
	g.mu.Lock()
	g.gates[store] = gt
	g.mu.Unlock()
	return gt
}

func (g *gateDS) disarm(store string) {
	g.mu.Lock()
	delete(g.gates, store)
	g.mu.Unlock()
}

func (g *gateDS) ReadChanges(ctx context.Context, store string, f storage.ReadChangesFilter, o storage.ReadChangesOptions) ([]*openfgav1.TupleChange, string, error) {
	g.mu.Lock()
	gt := g.gates[store]
	g.mu.Unlock()
	if gt != nil {
		gt.once.Do(func() { close(gt.arrived) })
		select {
		case <-gt.release:
		case <-ctx.Done():
			return nil, "", ctx.Err()
		}
	}
	return g.OpenFGADatastore.ReadChanges(ctx, store, f, o)
}

// parkedScan: iterator cache with a 1 s TTL; the store's changelog page holds changes older than that
// (so a run takes the per-entity branch); a run is started and parked in its scan; meanwhile a Check
// populates the iterator entry of doc:d1#viewer and a tuple is written to doc:d1#viewer; the scan is
// released. After a run that started after the write has completed the Check must see the new tuple.
func parkedScan(c *vk.Ctx, base *drive.Srv, m *openfgav1.AuthorizationModel) {
	gd := &gateDS{gates: map[string]*gate{}}
	name := "controller+itercache(ttl 1s)|parked-scan"
	s, err := drive.NewShared(drive.Cfg{Controller: true, ControllerTTL: time.Nanosecond, CheckIterCache: true, IterCacheTTL: time.Second,
		WrapDS: func(ds storage.OpenFGADatastore) storage.OpenFGADatastore { gd.OpenFGADatastore = ds; return gd }}, base)
	if err != nil {
		c.HarnessError("server %s: %v", name, err)
		return
	}
	defer s.Close()
	for rep := 0; rep < c.Pick(3, 10); rep++ {
		store, _ := base.CreateStore("c11-parked")
		mid, err := base.WriteModel(store, m)
		if err != nil {
			c.HarnessError("model: %v", err)
			return
		}
		tuples := []*openfgav1.TupleKey{
			{Object: "group:g1", Relation: "member", User: "user:a"}, {Object: "group:g3", Relation: "member", User: "user:c"},
			{Object: "doc:d1", Relation: "viewer", User: "group:g1#member"}, {Object: "doc:d2", Relation: "viewer", User: "group:g1#member"},
		}
		_ = base.WriteTuples(store, mid, tuples)
		p := &sem.Prepared{Case: &gen.Case{Name: "parked", Model: m}, Store: store, ModelID: mid, Ref: ref.NewModel(m, ref.TemplateCondEval), Stored: tuples}
		ask := func(o, r, u string) drive.Outcome {
			return s.Check(drive.Req{Store: store, Object: o, Relation: r, User: u})
		}
		time.Sleep(1100 * time.Millisecond) // pacing: the initial changes are now older than the iterator TTL
		// a first run on the settled store
		seq0 := clock.Load()
		for try := 0; try < 400 && !completedRunAfter(store, seq0); try++ {
			ask("doc:zz", "viewer", "user:zz")
			time.Sleep(5 * time.Millisecond)
		}
		gt := gd.arm(store)
		ask("doc:zz", "viewer", "user:zz") // starts a run, which parks in its scan
		select {
		case <-gt.arrived:
		case <-time.After(2 * time.Second):
			gd.disarm(store)
			close(gt.release)
			c.Count("parked_scan_histories_without_a_parked_run", 1)
			continue
		}
		rq := sem.Request{Object: "doc:d1", Relation: "viewer", User: "user:c"}
		ask(rq.Object, rq.Relation, rq.User) // populates the iterator entry of doc:d1#viewer (answer: denied)
		w := &openfgav1.TupleKey{Object: "doc:d1", Relation: "viewer", User: "group:g3#member"}
		if err := s.WriteTuples(store, mid, []*openfgav1.TupleKey{w}); err != nil {
			c.HarnessError("write: %v", err)
			return
		}
		ack := clock.Add(1)
		c.Count("writes", 1)
		gd.disarm(store)
		close(gt.release)
		okRun := false
		for try := 0; try < 400; try++ {
			if completedRunAfter(store, ack) {
				okRun = true
				break
			}
			ask("doc:zz", "viewer", "user:zz")
			time.Sleep(5 * time.Millisecond)
		}
		if !okRun {
			c.Inconclusive("parked-scan: no invalidation run started after the write within 400 triggers")
			continue
		}
		c.Count("parked_scan_histories", 1)
		after := ref.NewCase(p.Ref, append(append([]*openfgav1.TupleKey{}, tuples...), w), nil, rq.Object, rq.User)
		k := after.Eval(rq.User).K(rq.Object, rq.Relation)
		o := ask(rq.Object, rq.Relation, rq.User)
		c.Case(fmt.Sprintf("%s|parked|%s|flipped=true", name, sem.ShapeOf(p, rq, k)), true)
		c.Count("post_invalidation_requests_whose_answer_the_write_changed", 1)
		if v := sem.JudgeCheck(k, false, o); v != sem.Agree && v != sem.NotJudged {
			wit := sem.Witness(p, name, "", rq, nil, k.String(), o.String())
			wit["written_while_the_scan_was_parked"] = gen.TupleStrings([]*openfgav1.TupleKey{w})
			c.Violation("", name+"|parked|stale", fmt.Sprintf("on %s: a run was parked in its changelog scan, Check(%s#%s@%s) populated the iterator cache, %s was written, the scan was released; after a further run that started after the write had completed the Check answered %s; reference on the current state %s — STALE", name, rq.Object, rq.Relation, rq.User, gen.TupleStrings([]*openfgav1.TupleKey{w})[0], o, k), wit)
		}
	}
}
