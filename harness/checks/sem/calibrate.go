// Package sem is the shared kit of the semantic checks (C01–C11, C16, C17, C30, C32): oracle
// calibration against the repository's own YAML expectations, case setup on a real server, and the
// acceptance relation between reference values and API outcomes.
package sem

import (
	"context"
	"fmt"
	"sort"
	"strings"

	openfgav1 "github.com/openfga/api/proto/openfga/v1"
	parser "github.com/openfga/language/pkg/go/transformer"
	"google.golang.org/protobuf/types/known/structpb"
	"sigs.k8s.io/yaml"

	"github.com/openfga/openfga/assets"
	"github.com/openfga/openfga/internal/condition"
	"github.com/openfga/openfga/verifharness/ref"
	"github.com/openfga/openfga/verifharness/vk"
)

type calCheck struct {
	Name             string
	ContextualTuples []*openfgav1.TupleKey `json:"contextualTuples"`
	Context          *structpb.Struct
	Tuple            *openfgav1.TupleKey
	Expectation      bool
	ErrorCode        int `json:"errorCode"`
}

type calLO struct {
	Request          *openfgav1.ListObjectsRequest
	ContextualTuples []*openfgav1.TupleKey `json:"contextualTuples"`
	Context          *structpb.Struct
	Expectation      []string
	ErrorCode        int `json:"errorCode"`
}

type calLU struct {
	Request *struct {
		Object   string
		Relation string
		Filters  []string `json:"filters"`
	}
	ContextualTuples []*openfgav1.TupleKey `json:"contextualTuples"`
	Context          *structpb.Struct
	Expectation      []string
	ErrorCode        int `json:"errorCode"`
}

type calStage struct {
	Name   string
	Model  string
	Tuples []*openfgav1.TupleKey
	Checks []*calCheck `json:"checkAssertions"`
	LOs    []*calLO    `json:"listObjectsAssertions"`
	LUs    []*calLU    `json:"listUsersAssertions"`
}

type calFile struct {
	Tests []struct {
		Name   string
		Stages []*calStage
	}
}

// repoCondEval evaluates free-form CEL conditions with the repository's evaluator. Used ONLY while
// calibrating the graph semantics of ref against the YAML fixtures (their conditions are arbitrary
// CEL, outside ref's template family). Never used when judging the code under test.
func repoCondEval(m *ref.Model, name string, merged map[string]*structpb.Value) ref.Tri {
	c := m.Conds[name]
	if c == nil {
		return ref.E
	}
	ec, err := condition.NewCompiled(c)
	if err != nil {
		return ref.E
	}
	res, err := ec.Evaluate(context.Background(), merged)
	if err != nil || len(res.MissingParameters) > 0 {
		return ref.E
	}
	if res.ConditionMet {
		return ref.T
	}
	return ref.F
}

// Calibrate replays every Check / ListObjects / ListUsers expectation of the repository's YAML test
// matrix through the reference semantics. A disagreement means the ORACLE is wrong (or reads the
// semantics differently from the maintainers' own expectations): the run is aborted as a harness
// error. Returns the number of assertions reproduced.
func Calibrate(c *vk.Ctx) bool {
	agree, skipped := 0, 0
	var disagreements []string
	for _, file := range []string{"tests/consolidated_1_1_tests.yaml", "tests/abac_tests.yaml"} {
		b, err := assets.EmbedTests.ReadFile(file)
		if err != nil {
			c.HarnessError("calibration: cannot read %s: %v", file, err)
			return false
		}
		var cf calFile
		if err := yaml.Unmarshal(b, &cf); err != nil {
			c.HarnessError("calibration: cannot parse %s: %v", file, err)
			return false
		}
		for _, t := range cf.Tests {
			var stored []*openfgav1.TupleKey
			for si, st := range t.Stages {
				mp, err := parser.TransformDSLToProto(st.Model)
				if err != nil {
					skipped += len(st.Checks) + len(st.LOs) + len(st.LUs)
					continue
				}
				m := ref.NewModel(mp, repoCondEval)
				stored = append(stored, st.Tuples...)
				if !m.Stratified {
					skipped += len(st.Checks) + len(st.LOs) + len(st.LUs)
					continue
				}
				where := fmt.Sprintf("%s/%s/stage%d", file, t.Name, si)
				for _, a := range st.Checks {
					all := append(append([]*openfgav1.TupleKey{}, stored...), a.ContextualTuples...)
					rc := ref.NewCase(m, all, a.Context, a.Tuple.GetObject(), a.Tuple.GetUser())
					k := rc.Eval(a.Tuple.GetUser()).K(a.Tuple.GetObject(), a.Tuple.GetRelation())
					switch {
					case a.ErrorCode == 2002:
						skipped++ // resolution depth limit: outside the property's scope
					case a.ErrorCode != 0:
						if k == ref.E {
							agree++
						} else if !requestWellFormed(m, a.Tuple) || !contextualValid(m, a.ContextualTuples) {
							skipped++ // validation error of the request itself: not the oracle's subject
						} else {
							disagreements = append(disagreements, fmt.Sprintf("%s check %v: fixture expects error %d, ref=%v", where, a.Tuple, a.ErrorCode, k))
						}
					case a.Expectation && k == ref.T, !a.Expectation && k == ref.F:
						agree++
					default:
						disagreements = append(disagreements, fmt.Sprintf("%s check %v ctx=%v: fixture expects %v, ref=%v", where, a.Tuple, a.Context, a.Expectation, k))
					}
				}
				for _, a := range st.LOs {
					all := append(append([]*openfgav1.TupleKey{}, stored...), a.ContextualTuples...)
					rc := ref.NewCase(m, all, a.Context, a.Request.GetUser())
					got, anyE := RefListObjects(rc, a.Request.GetType(), a.Request.GetRelation(), a.Request.GetUser())
					if a.ErrorCode != 0 {
						if anyE {
							agree++
						} else {
							skipped++
						}
						continue
					}
					want := append([]string{}, a.Expectation...)
					sort.Strings(want)
					if strings.Join(got, ",") == strings.Join(want, ",") {
						agree++
					} else {
						disagreements = append(disagreements, fmt.Sprintf("%s listobjects %v: fixture expects %v, ref=%v", where, a.Request, want, got))
					}
				}
				for _, a := range st.LUs {
					if a.Request == nil || len(a.Request.Filters) != 1 {
						skipped++
						continue
					}
					all := append(append([]*openfgav1.TupleKey{}, stored...), a.ContextualTuples...)
					rc := ref.NewCase(m, all, a.Context, a.Request.Object)
					ft, fr := ref.UserParts(a.Request.Filters[0])
					exp := RefListUsers(rc, a.Request.Object, a.Request.Relation, ft, fr)
					if a.ErrorCode != 0 {
						if exp.AnyE {
							agree++
						} else {
							skipped++
						}
						continue
					}
					want := append([]string{}, a.Expectation...)
					sort.Strings(want)
					// the fixture lists what ListUsers returns; the statement we judge is: every listed entry
					// holds (K=T), and every concrete K=T user is listed or covered by a listed wildcard.
					ok := true
					wild := false
					for _, u := range want {
						if ref.IsWildcard(u) {
							wild = true
						}
						if rc.Eval(u).K(a.Request.Object, a.Request.Relation) != ref.T {
							ok = false
						}
					}
					for _, u := range exp.Concrete {
						if !containsStr(want, u) && !wild {
							ok = false
						}
					}
					if ok {
						agree++
					} else {
						disagreements = append(disagreements, fmt.Sprintf("%s listusers %v: fixture expects %v, ref concrete=%v wildcard=%v", where, a.Request, want, exp.Concrete, exp.Wildcard))
					}
				}
			}
		}
	}
	c.Extra("calibration_fixture_assertions_reproduced", agree)
	c.Extra("calibration_fixture_assertions_skipped", skipped)
	if len(disagreements) > 0 {
		for i, d := range disagreements {
			if i < 20 {
				c.Logf("calibration disagreement: %s", d)
			}
		}
		c.HarnessError("oracle calibration failed: ref disagrees with %d fixture expectations (reproduced %d)", len(disagreements), agree)
		return false
	}
	c.Logf("oracle calibration: %d fixture assertions reproduced, %d skipped", agree, skipped)
	return true
}

func containsStr(xs []string, x string) bool {
	for _, y := range xs {
		if y == x {
			return true
		}
	}
	return false
}

func requestWellFormed(m *ref.Model, tk *openfgav1.TupleKey) bool {
	ot, oid := ref.SplitObject(tk.GetObject())
	if ot == "" || oid == "" || m.Rewrite(ot, tk.GetRelation()) == nil {
		return false
	}
	uo, ur := ref.UserParts(tk.GetUser())
	ut, uid := ref.SplitObject(uo)
	if m.Types[ut] == nil || uid == "" {
		return false
	}
	if ur != "" && m.Rewrite(ut, ur) == nil {
		return false
	}
	return true
}

func contextualValid(m *ref.Model, tks []*openfgav1.TupleKey) bool {
	for _, tk := range tks {
		if !m.ValidForRead(tk) {
			return false
		}
	}
	return true
}

// RefListObjects returns the sorted objects of the universe with K=T, and whether some candidate is E.
func RefListObjects(rc *ref.Case, typ, relation, user string) ([]string, bool) {
	res := rc.Eval(user)
	var out []string
	anyE := false
	for _, id := range rc.Objects(typ) {
		switch res.K(typ+":"+id, relation) {
		case ref.T:
			out = append(out, typ+":"+id)
		case ref.E:
			anyE = true
		}
	}
	sort.Strings(out)
	return out, anyE
}

// ListUsersExpectation is the reference view of a ListUsers request.
type ListUsersExpectation struct {
	Concrete []string // concrete users / usersets of the filter with K=T
	Wildcard bool     // K(object#relation, "type:*") = T (only for type filters)
	AnyE     bool
	Values   map[string]ref.Tri
}

// RefListUsers evaluates every candidate subject of the filter in the universe.
func RefListUsers(rc *ref.Case, object, relation, filterType, filterRel string) ListUsersExpectation {
	exp := ListUsersExpectation{Values: map[string]ref.Tri{}}
	var cands []string
	for _, id := range rc.Objects(filterType) {
		s := filterType + ":" + id
		if filterRel != "" {
			s += "#" + filterRel
		}
		cands = append(cands, s)
	}
	for _, s := range cands {
		k := rc.Eval(s).K(object, relation)
		exp.Values[s] = k
		switch k {
		case ref.T:
			exp.Concrete = append(exp.Concrete, s)
		case ref.E:
			exp.AnyE = true
		}
	}
	if filterRel == "" {
		w := filterType + ":*"
		k := rc.Eval(w).K(object, relation)
		exp.Values[w] = k
		exp.Wildcard = k == ref.T
		if k == ref.E {
			exp.AnyE = true
		}
	}
	sort.Strings(exp.Concrete)
	return exp
}
