package sem

import (
	"sort"
	"strings"

	openfgav1 "github.com/openfga/api/proto/openfga/v1"

	"github.com/openfga/openfga/verifharness/ref"
)

// This file is the executable deviation model of the known finding "listusers-exclusion-bookkeeping":
// a sequential restatement of the message calculus ListUsers uses today (found / not-found messages
// carrying lists of excluded users, counted by unions, intersected by intersections, resolved
// last-writer-wins by exclusions and by the final collector). It is NOT the oracle — the reference
// semantics is — it only decides whether a deviation from the reference is the listed one: a deviating
// answer is attributed to the finding when this model predicts exactly that answer. Where the real
// algorithm's outcome depends on message order (two messages with different status for one user meet
// in a last-writer-wins map) the model says so and the request is not judged.

type luMsg struct {
	user string
	no   bool // NoRelationship
	excl []string
}

type luOut struct {
	msgs     []luMsg
	hasCycle bool
}

// LUModel predicts ListUsers(object#relation, filter) the way the implementation computes it.
type LUModel struct {
	rc         *ref.Case
	ft, fr     string
	byNode     map[string][]*openfgav1.TupleKey
	Nondet     bool // outcome depends on message order
	Err        bool // an unevaluable condition was read (the implementation fails)
	TooDeep    bool
	wildcard   string
	expansions int
}

// PredictListUsers returns the predicted result set (sorted user strings) and whether the prediction is
// determinate (no order dependence, no condition error, within depth and work bounds).
func PredictListUsers(rc *ref.Case, object, relation, filterType, filterRel string) ([]string, *LUModel) {
	m := &LUModel{rc: rc, ft: filterType, fr: filterRel, byNode: map[string][]*openfgav1.TupleKey{}, wildcard: filterType + ":*"}
	for _, tk := range rc.ValidTuples() {
		k := tk.GetObject() + "#" + tk.GetRelation()
		m.byNode[k] = append(m.byNode[k], tk)
	}
	out := m.expand(object, relation, map[string]bool{}, 0)
	final := map[string]bool{} // user -> NoRelationship of the last message
	seenStatus := map[string]map[bool]bool{}
	for _, msg := range out.msgs {
		final[msg.user] = msg.no
		if seenStatus[msg.user] == nil {
			seenStatus[msg.user] = map[bool]bool{}
		}
		seenStatus[msg.user][msg.no] = true
	}
	var res []string
	for u, no := range final {
		if len(seenStatus[u]) > 1 {
			m.Nondet = true
		}
		if !no {
			res = append(res, u)
		}
	}
	sort.Strings(res)
	return res, m
}

// Determinate reports whether the prediction can be compared with an observed answer.
func (m *LUModel) Determinate() bool { return !m.Nondet && !m.Err && !m.TooDeep }

func cloneVisited(v map[string]bool) map[string]bool {
	c := make(map[string]bool, len(v)+1)
	for k := range v {
		c[k] = true
	}
	return c
}

func (m *LUModel) expand(object, relation string, visited map[string]bool, depth int) luOut {
	if depth >= 25 || m.expansions > 20000 {
		m.TooDeep = true
		return luOut{}
	}
	m.expansions++
	key := object + "#" + relation
	if visited[key] {
		return luOut{hasCycle: true}
	}
	visited[key] = true
	var out luOut
	typ, _ := ref.SplitObject(object)
	if typ == m.ft && relation == m.fr {
		out.msgs = append(out.msgs, luMsg{user: object + "#" + relation})
	}
	rw := m.rc.Model.Rewrite(typ, relation)
	if rw == nil {
		return out
	}
	r := m.rewrite(object, relation, rw, visited, depth+1)
	out.msgs = append(out.msgs, r.msgs...)
	out.hasCycle = r.hasCycle
	return out
}

func (m *LUModel) rewrite(object, relation string, rw *openfgav1.Userset, visited map[string]bool, depth int) luOut {
	switch v := rw.GetUserset().(type) {
	case *openfgav1.Userset_This:
		var out luOut
		for _, tk := range m.byNode[object+"#"+relation] {
			switch m.rc.CondValue(tk) {
			case ref.E:
				m.Err = true
				continue
			case ref.F:
				continue
			}
			u := tk.GetUser()
			if !strings.Contains(u, "#") {
				ut, _ := ref.SplitObject(u)
				if ut == m.ft && m.fr == "" {
					out.msgs = append(out.msgs, luMsg{user: u})
				}
				continue
			}
			i := strings.Index(u, "#")
			r := m.expand(u[:i], u[i+1:], cloneVisited(visited), depth)
			out.msgs = append(out.msgs, r.msgs...)
			if r.hasCycle {
				out.hasCycle = true
			}
		}
		return out
	case *openfgav1.Userset_ComputedUserset:
		return m.expand(object, v.ComputedUserset.GetRelation(), cloneVisited(visited), depth)
	case *openfgav1.Userset_TupleToUserset:
		var out luOut
		for _, tk := range m.byNode[object+"#"+v.TupleToUserset.GetTupleset().GetRelation()] {
			switch m.rc.CondValue(tk) {
			case ref.E:
				m.Err = true
				continue
			case ref.F:
				continue
			}
			r := m.expand(tk.GetUser(), v.TupleToUserset.GetComputedUserset().GetRelation(), cloneVisited(visited), depth)
			out.msgs = append(out.msgs, r.msgs...)
		}
		return out
	case *openfgav1.Userset_Union:
		ch := v.Union.GetChild()
		found := map[string]bool{}
		exclCount := map[string]int{}
		for _, c := range ch {
			for _, msg := range m.rewrite(object, relation, c, visited, depth).msgs {
				for _, e := range msg.excl {
					exclCount[e]++
				}
				if !msg.no {
					found[msg.user] = true
				}
			}
		}
		var excl []string
		for e, n := range exclCount {
			if n == len(ch) {
				excl = append(excl, e)
			}
		}
		sort.Strings(excl)
		var out luOut
		for _, u := range sortedKeys(found) {
			out.msgs = append(out.msgs, luMsg{user: u, excl: excl})
		}
		return out
	case *openfgav1.Userset_Intersection:
		ch := v.Intersection.GetChild()
		count := map[string]int{}
		excluded := map[string]bool{}
		wildcards := 0
		for _, c := range ch {
			has := map[string]bool{}
			for _, msg := range m.rewrite(object, relation, c, visited, depth).msgs {
				for _, e := range msg.excl {
					excluded[e] = true
				}
				if !msg.no {
					has[msg.user] = true
				}
			}
			w := has[m.wildcard]
			if w {
				wildcards++
			}
			for u := range has {
				count[u]++
				if w {
					count[u]--
				}
			}
		}
		excl := sortedKeys(excluded)
		var out luOut
		for _, u := range sortedKeysInt(count) {
			if excluded[u] {
				continue
			}
			if count[u]+wildcards == len(ch) {
				out.msgs = append(out.msgs, luMsg{user: u, excl: excl})
			}
		}
		return out
	case *openfgav1.Userset_Difference:
		b := m.rewrite(object, relation, v.Difference.GetBase(), visited, depth)
		s := m.rewrite(object, relation, v.Difference.GetSubtract(), visited, depth)
		base := m.lastWins(b.msgs)
		sub := m.lastWins(s.msgs)
		if s.hasCycle {
			return luOut{}
		}
		_, baseWildcard := base[m.wildcard]
		_, subWildcard := sub[m.wildcard]
		var out luOut
		send := func(u string, no bool, excl ...string) {
			out.msgs = append(out.msgs, luMsg{user: u, no: no, excl: excl})
		}
		for _, userKey := range sortedMsgKeys(base) {
			fu := base[userKey]
			subtracted, userIsSubtracted := sub[userKey]
			switch {
			case baseWildcard:
				if !userIsSubtracted && !subWildcard {
					send(userKey, false)
				}
				for _, sk := range sortedMsgKeys(sub) {
					sfu := sub[sk]
					if isTypedWildcard(sk) {
						if !userIsSubtracted {
							send(userKey, true)
						}
						continue
					}
					if sfu.no {
						send(sk, false)
					} else {
						send(sk, true, sk)
					}
				}
			case subWildcard, userIsSubtracted:
				// subtracted is the zero value (HasRelationship) when only the wildcard is subtracted
				if !subtracted.no {
					send(userKey, true)
				} else {
					send(userKey, false)
				}
			default:
				send(userKey, fu.no)
			}
		}
		return out
	}
	return luOut{}
}

// lastWins folds messages into a last-writer-wins map and flags order dependence.
func (m *LUModel) lastWins(msgs []luMsg) map[string]luMsg {
	out := map[string]luMsg{}
	for _, msg := range msgs {
		if prev, ok := out[msg.user]; ok && prev.no != msg.no {
			m.Nondet = true
		}
		out[msg.user] = msg
	}
	return out
}

func isTypedWildcard(u string) bool { return strings.HasSuffix(u, ":*") && !strings.Contains(u, "#") }

func sortedKeys(m map[string]bool) []string {
	var out []string
	for k := range m {
		out = append(out, k)
	}
	sort.Strings(out)
	return out
}

func sortedKeysInt(m map[string]int) []string {
	var out []string
	for k := range m {
		out = append(out, k)
	}
	sort.Strings(out)
	return out
}

func sortedMsgKeys(m map[string]luMsg) []string {
	var out []string
	for k := range m {
		out = append(out, k)
	}
	sort.Strings(out)
	return out
}
