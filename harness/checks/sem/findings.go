package sem

import (
	openfgav1 "github.com/openfga/api/proto/openfga/v1"

	"github.com/openfga/openfga/verifharness/drive"
	"github.com/openfga/openfga/verifharness/ref"
)

// FindingCondSwallowed: condition-evaluation errors are dropped by the conditions-filtered tuple
// iterator whenever another tuple of the same read passes its condition, so a Check whose outcome
// depends on an unevaluable condition returns a decision instead of failing.
const FindingCondSwallowed = "cond-error-swallowed"

// SwallowExplains is the executable deviation model of FindingCondSwallowed. It reports whether the
// observed DECISION (decided) on a request whose reference value is E equals the reference value of
// the same request after dropping some non-empty set S of unevaluable tuples, where every tuple in S
// is "swallowable": another valid tuple on the same object type and relation passes its condition
// (or has none), i.e. can share a datastore read with it and so mask its error.
func SwallowExplains(rc *ref.Case, object, relation, user string, decided bool) bool {
	var sw []*openfgav1.TupleKey
	valid := rc.ValidTuples()
	for _, t := range rc.Unevaluable() {
		ot, _ := ref.SplitObject(t.GetObject())
		for _, u := range valid {
			if u == t || rc.CondValue(u) != ref.T {
				continue
			}
			ut, _ := ref.SplitObject(u.GetObject())
			if ut == ot && u.GetRelation() == t.GetRelation() {
				sw = append(sw, t)
				break
			}
		}
	}
	if len(sw) == 0 {
		return false
	}
	if len(sw) > 10 {
		sw = sw[:10]
	}
	want := ref.F
	if decided {
		want = ref.T
	}
	for mask := 1; mask < 1<<len(sw); mask++ {
		var drop []*openfgav1.TupleKey
		for i, t := range sw {
			if mask&(1<<i) != 0 {
				drop = append(drop, t)
			}
		}
		if rc.Dropping(drop).Eval(user).K(object, relation) == want {
			return true
		}
	}
	return false
}

// ClassifyCheck attributes a disagreement between Check and the reference to a known finding when —
// and only when — the finding's executable deviation model reproduces the observed answer and its
// deviation rule fired on this very request. prefix is the property id. Returns "" otherwise.
func ClassifyCheck(prefix string, rc *ref.Case, rq Request, k ref.Tri, o drive.Outcome) string {
	if o.Err == nil && k == ref.E && SwallowExplains(rc, rq.Object, rq.Relation, rq.User, o.Allowed) {
		return prefix + "-" + FindingCondSwallowed
	}
	return ""
}
