package sem

import (
	openfgav1 "github.com/openfga/api/proto/openfga/v1"
	"sort"
	"strings"

	"github.com/openfga/openfga/verifharness/drive"
	"github.com/openfga/openfga/verifharness/ref"
	"github.com/openfga/openfga/verifharness/vk"
)

// FindingCondSwallowed: condition-evaluation errors are dropped by the conditions-filtered tuple
// iterator whenever another tuple of the same read passes its condition, so a Check whose outcome
// depends on an unevaluable condition returns a decision instead of failing.
const FindingCondSwallowed = "cond-error-swallowed"

// SwallowExplains is the executable deviation model of FindingCondSwallowed. It reports whether the
// observed DECISION (decided) on a request whose reference value is E equals the reference value of
// the same request after dropping some non-empty set S of unevaluable tuples, where every tuple in S
// is "swallowable": another valid tuple on the same object type and relation passes its condition
// (or has none), i.e. can share a datastore read with it and so mask its error.
func SwallowExplains(rc *ref.Case, object, relation, user string, decided bool) bool {
	return swallowExplains(rc, object, relation, user, decided, false)
}

// SwallowExplainsV2 is the variant for the weighted-graph engine, whose filtered iterators
// (internal/iterator.NewFilteredIterator: "if none of the tuples are valid AND there are errors,
// returns the last error") batch tuples differently (bottom-up reads across objects): any
// unevaluable tuple may be dropped.
func SwallowExplainsV2(rc *ref.Case, object, relation, user string, decided bool) bool {
	return swallowExplains(rc, object, relation, user, decided, true)
}

func swallowExplains(rc *ref.Case, object, relation, user string, decided bool, any bool) bool {
	var sw []*openfgav1.TupleKey
	valid := rc.ValidTuples()
	for _, t := range rc.Unevaluable() {
		if any {
			sw = append(sw, t)
			continue
		}
		ot, _ := ref.SplitObject(t.GetObject())
		for _, u := range valid {
			if u == t || rc.CondValue(u) != ref.T {
				continue
			}
			ut, _ := ref.SplitObject(u.GetObject())
			if ut == ot && u.GetRelation() == t.GetRelation() {
				sw = append(sw, t)
				break
			}
		}
	}
	if len(sw) == 0 {
		return false
	}
	want := ref.F
	if decided {
		want = ref.T
	}
	return subsetSearch(sw, func(drop []*openfgav1.TupleKey) bool {
		return rc.Dropping(drop).Eval(user).K(object, relation) == want
	})
}

// subsetSearch looks for a non-empty subset of cand accepted by try: the whole set first, then subsets
// of size 1..3 (bounded number of evaluations: wide cases have dozens of candidates, an exhaustive 2^n
// search is impossible), then, for at most 10 candidates, every remaining subset.
func subsetSearch(cand []*openfgav1.TupleKey, try func([]*openfgav1.TupleKey) bool) bool {
	if len(cand) == 0 {
		return false
	}
	if try(cand) {
		return true
	}
	budget := 1500
	for size := 1; size <= 3 && size < len(cand); size++ {
		idx := make([]int, size)
		for i := range idx {
			idx[i] = i
		}
		for {
			drop := make([]*openfgav1.TupleKey, size)
			for i, j := range idx {
				drop[i] = cand[j]
			}
			if try(drop) {
				return true
			}
			if budget--; budget <= 0 {
				return false
			}
			i := size - 1
			for i >= 0 && idx[i] == len(cand)-size+i {
				i--
			}
			if i < 0 {
				break
			}
			idx[i]++
			for j := i + 1; j < size; j++ {
				idx[j] = idx[j-1] + 1
			}
		}
	}
	if len(cand) <= 10 {
		for mask := 1; mask < 1<<len(cand); mask++ {
			var drop []*openfgav1.TupleKey
			for i, t := range cand {
				if mask&(1<<i) != 0 {
					drop = append(drop, t)
				}
			}
			if len(drop) > 3 && try(drop) {
				return true
			}
		}
	}
	return false
}

// FindingDedup: the sorted ReadStartingWithUser path used by the non-default strategies merges
// contextual and stored tuples through OrderedCombinedIterator(ObjectMapper), which keeps only the
// first tuple per object — before tuples that are invalid for the model or fail their condition are
// filtered out. When the kept tuple is then filtered, the object is lost although another tuple
// (same object and relation, the user itself or its typed wildcard) grants it.
const FindingDedup = "fastpath-dedup-before-filter"

// DedupExplains is the executable deviation model of FindingDedup: the observed decision equals
// the reference value after dropping a non-empty set of tuples (o, r, u) with u ∈ {subject,
// subject's typed wildcard} for each of which ANOTHER tuple on the same (o, r) with a user from the
// same two-element set exists that does not grant (invalid for the model, or condition not True).
// withSwallow additionally allows swallowable unevaluable tuples (FindingCondSwallowed) in the set.
func DedupExplains(rc *ref.Case, object, relation, user string, decided bool, withSwallow bool) bool {
	if ref.IsUserset(user) {
		return false
	}
	ut, _ := ref.SplitObject(user)
	match := func(u string) bool { return u == user || u == ut+":*" }
	isValid := map[*openfgav1.TupleKey]bool{}
	for _, t := range rc.ValidTuples() {
		isValid[t] = true
	}
	var cand []*openfgav1.TupleKey
	for _, t := range rc.ValidTuples() {
		if !match(t.GetUser()) {
			continue
		}
		for _, o := range rc.Tuples {
			if o == t || o.GetObject() != t.GetObject() || o.GetRelation() != t.GetRelation() || !match(o.GetUser()) {
				continue
			}
			if !isValid[o] || rc.CondValue(o) != ref.T {
				cand = append(cand, t)
				break
			}
		}
	}
	if len(cand) == 0 {
		return false
	}
	dedupOnly := append([]*openfgav1.TupleKey{}, cand...)
	if withSwallow {
		for _, t := range rc.Unevaluable() {
			dup := false
			for _, c := range cand {
				if c == t {
					dup = true
				}
			}
			if !dup {
				cand = append(cand, t)
			}
		}
	}
	want := ref.F
	if decided {
		want = ref.T
	}
	if subsetSearch(cand, func(drop []*openfgav1.TupleKey) bool {
		return rc.Dropping(drop).Eval(user).K(object, relation) == want
	}) {
		return true
	}
	// The drop happens per datastore read, not per request: the same tuple can be lost by the sorted
	// ReadStartingWithUser of one sub-problem (say, the subtracted branch of an exclusion) and seen by
	// the plain read of another (the base). No single consistent drop set reproduces such an answer.
	// Per-read model: the candidate tuples count as "seen by some reads only" (unknown); the finding
	// explains the answer when the decided reference value becomes undetermined under that weakening.
	if k := rc.Eval(user).K(object, relation); k != ref.E {
		return rc.Weakening(dedupOnly).Eval(user).K(object, relation) == ref.E
	}
	return false
}

// FindingSubtractCycle: a resolution cycle met while evaluating the subtracted branch of an
// exclusion makes the exclusion false (deliberate in both engines' exclusion reducers), whereas under
// least-fixpoint semantics a cyclic branch is simply false and the exclusion holds.
const FindingSubtractCycle = "cycle-in-subtract-denies"

// ClassifyCheck attributes a disagreement between Check and the reference to a known finding when —
// and only when — the finding's executable deviation model reproduces the observed answer and its
// deviation rule fired on this very request. prefix is the property id. Returns "" otherwise.
func ClassifyCheck(prefix string, rc *ref.Case, rq Request, k ref.Tri, o drive.Outcome, mode drive.Mode) string {
	if o.Err != nil {
		return ""
	}
	if k == ref.E && SwallowExplains(rc, rq.Object, rq.Relation, rq.User, o.Allowed) {
		return prefix + "-" + FindingCondSwallowed
	}
	if mode != "default" && DedupExplains(rc, rq.Object, rq.Relation, rq.User, o.Allowed, true) {
		return prefix + "-" + FindingDedup
	}
	// (with reference E the model's "conditions count only when True" is the listed error swallowing: the
	// denial is the cycle rule firing on what is left)
	if (k == ref.T || k == ref.E) && !o.Allowed {
		if v, fired, ok := rc.CycleDeviation(rq.User, rq.Object, rq.Relation); ok && fired && !v {
			return prefix + "-" + FindingSubtractCycle
		}
	}
	return ""
}

// ClassifyList attributes a ListObjects deviation on one object (returned although not permitted:
// extra=true; omitted although permitted: extra=false) to a known finding of the list engines.
// Returns "" when no listed deviation model explains it.
func ClassifyList(prefix, engine string, p *Prepared, rc *ref.Case, object, relation, user string, extra bool) string {
	typ, _ := ref.SplitObject(object)
	if strings.HasPrefix(engine, "optimized") && !extra && p.Ref.ReachesDirectAndComputedSame(typ, relation) {
		return prefix + "-" + FindingOptimizedTwoEdges
	}
	if strings.HasPrefix(engine, "optimized") && !extra {
		return prefix + "-" + FindingOptimizedOmits
	}
	return ""
}

// FindingOptimizedOmits: other omissions / duplicates of the weighted reverse expansion.
const FindingOptimizedOmits = "optimized-omits-or-duplicates"

// FindingOptimizedTwoEdges: the weighted reverse expansion (enable-list-objects-optimizations) omits
// permitted objects when a relation has both a computed userset x and a direct restriction T#x on
// its own type, e.g. 'group.owner: [group#member] or member' with group:g3#member@user:b:
// ListObjects(group, owner, user:b) returns nothing.
const FindingOptimizedTwoEdges = "optimized-direct-and-computed-same-relation"

// ClassifyListError attributes an unexpected ListObjects error to a known finding.
func ClassifyListError(prefix, engine string, p *Prepared, typ, relation, user string, err error) string {
	// FindingDegenerateIntersection: the weighted reverse expansion (enable-list-objects-optimizations)
	// fails with an internal error when an intersection of the model collapses to a single edge in the
	// weighted graph (e.g. "viewer from parent and viewer from parent").
	if strings.HasPrefix(engine, "optimized") && err != nil && strings.Contains(drive.ErrDetail(err), "operation: intersection: invalid edges for source type") {
		return prefix + "-" + FindingDegenerateIntersection
	}
	return ""
}

// FindingDegenerateIntersection names the finding matched by ClassifyListError.
const FindingDegenerateIntersection = "optimized-degenerate-intersection-error"

// ClassifyLimit attributes a wrong result count under a limit to a known finding: when the
// shortfall/excess is explained by the per-object deviation models.
func ClassifyLimit(prefix, engine string, rc *ref.Case, relation, user string, want, got []string, mode drive.Mode) string {
	gotSet := map[string]bool{}
	for _, o := range got {
		gotSet[o] = true
	}
	finding := ""
	explained := 0
	for _, o := range want {
		if gotSet[o] {
			continue
		}
		f := ClassifyCheck(prefix, rc, Request{Object: o, Relation: relation, User: user, Ctx: rc.Context}, ref.T, drive.Outcome{Allowed: false}, mode)
		if f == "" {
			continue
		}
		if finding == "" {
			finding = f
		} else if finding != f {
			return ""
		}
		explained++
	}
	if finding == "" {
		return ""
	}
	// with the explained objects removed from the reference set, is the count right?
	return finding
}

// FindingV2TuplesetUserset: the weighted-graph engine reads tupleset relations with a type-prefix
// user filter and does not drop (invalid, left-over) tuples whose user is a userset "T:id#rel"; it
// then follows "T:id" as if it were the parent object.
const FindingV2TuplesetUserset = "v2-tupleset-userset-tuple-followed"

// V2TuplesetUsersetExplains is the executable deviation model of FindingV2TuplesetUserset: the
// reference value is F, the server allowed, and the reference value becomes T when every tuple on a
// tupleset relation whose user is a userset is replaced by the same tuple with the userset's object.
func V2TuplesetUsersetExplains(rc *ref.Case, object, relation, user string) bool {
	return V2TuplesetUsersetValue(rc, object, relation, user) == ref.T
}

// V2TuplesetUsersetValue returns the reference value under the deviation (tupleset tuples whose user
// is a userset count as tuples to the userset's object), or -1 when the case has no such tuple.
func V2TuplesetUsersetValue(rc *ref.Case, object, relation, user string) ref.Tri {
	var alt []*openfgav1.TupleKey
	changed := false
	for _, tk := range rc.Tuples {
		ot, _ := ref.SplitObject(tk.GetObject())
		if rc.Model.IsTupleset(ot, tk.GetRelation()) && ref.IsUserset(tk.GetUser()) {
			uo, _ := ref.UserParts(tk.GetUser())
			alt = append(alt, &openfgav1.TupleKey{Object: tk.GetObject(), Relation: tk.GetRelation(), User: uo, Condition: tk.GetCondition()})
			changed = true
			continue
		}
		alt = append(alt, tk)
	}
	if !changed {
		return -1
	}
	return ref.NewCase(rc.Model, alt, rc.Context, object, user).Eval(user).K(object, relation)
}

// HasExclusion reports whether the rewrite of typ#rel contains a difference, following computed
// usersets of the same type.
func HasExclusion(m *ref.Model, typ, rel string) bool {
	seen := map[string]bool{}
	var walk func(us *openfgav1.Userset) bool
	var walkRel func(r string) bool
	walk = func(us *openfgav1.Userset) bool {
		switch u := us.GetUserset().(type) {
		case *openfgav1.Userset_Difference:
			return true
		case *openfgav1.Userset_ComputedUserset:
			return walkRel(u.ComputedUserset.GetRelation())
		case *openfgav1.Userset_Union:
			for _, ch := range u.Union.GetChild() {
				if walk(ch) {
					return true
				}
			}
		case *openfgav1.Userset_Intersection:
			for _, ch := range u.Intersection.GetChild() {
				if walk(ch) {
					return true
				}
			}
		}
		return false
	}
	walkRel = func(r string) bool {
		if seen[r] {
			return false
		}
		seen[r] = true
		us := m.Rewrite(typ, r)
		return us != nil && walk(us)
	}
	return walkRel(rel)
}

// FindingV2SharedVisited: the weighted-graph engine denies a permitted object subject when the
// target relation reaches the same recursive userset relation (T#r with restriction T#r) through two
// or more rewrite paths (e.g. "viewer: blocked or [doc#viewer] or blocked", or via computed
// relations): the evaluations share one visited-userset filter per request, so the second path finds
// the userset already visited.
const FindingV2SharedVisited = "v2-recursive-userset-reached-twice"

// RecursiveUsersetReachedTwice is the firing condition of FindingV2SharedVisited: following only
// computed-userset edges from typ#rel, some direct-assignment leaf of a self-recursive relation is
// reached at least twice.
func RecursiveUsersetReachedTwice(m *ref.Model, typ, rel string) bool {
	count := map[string]int{}
	var walkRel func(r string, depth int)
	var walk func(r string, us *openfgav1.Userset, depth int)
	walk = func(r string, us *openfgav1.Userset, depth int) {
		if depth > 12 {
			return
		}
		switch u := us.GetUserset().(type) {
		case *openfgav1.Userset_This:
			for _, rr := range m.Restrictions(typ, r) {
				if rr.GetType() == typ && rr.GetRelation() == r {
					count[r]++
					return
				}
			}
		case *openfgav1.Userset_ComputedUserset:
			walkRel(u.ComputedUserset.GetRelation(), depth+1)
		case *openfgav1.Userset_Union:
			for _, ch := range u.Union.GetChild() {
				walk(r, ch, depth)
			}
		case *openfgav1.Userset_Intersection:
			for _, ch := range u.Intersection.GetChild() {
				walk(r, ch, depth)
			}
		case *openfgav1.Userset_Difference:
			walk(r, u.Difference.GetBase(), depth)
			walk(r, u.Difference.GetSubtract(), depth)
		}
	}
	walkRel = func(r string, depth int) {
		if us := m.Rewrite(typ, r); us != nil {
			walk(r, us, depth)
		}
	}
	walkRel(rel, 0)
	for _, n := range count {
		if n >= 2 {
			return true
		}
	}
	return false
}

// ErrorNamesInvalidTuplesetTuple reports whether a condition-evaluation error names a tuple of the
// case that sits on a tupleset relation with a userset user (invalid for the model, must be ignored).
func ErrorNamesInvalidTuplesetTuple(rc *ref.Case, err error) bool {
	msg := drive.ErrDetail(err)
	for _, tk := range rc.Tuples {
		ot, _ := ref.SplitObject(tk.GetObject())
		if rc.Model.IsTupleset(ot, tk.GetRelation()) && ref.IsUserset(tk.GetUser()) &&
			strings.Contains(msg, "'"+tk.GetObject()+"#"+tk.GetRelation()+"@"+tk.GetUser()+"'") {
			return true
		}
	}
	return false
}

// ClassifyV2 attributes a disagreement between the reference and an answer of a server running the
// weighted-graph engine to the listed defects of that engine (see the C03 findings). It is used by
// checks other than C03, which do not observe whether the request fell back to the default engine.
func ClassifyV2(prefix string, p *Prepared, rc *ref.Case, rq Request, k ref.Tri, o drive.Outcome) string {
	typ, _ := ref.SplitObject(rq.Object)
	kind := ref.UserKind(rq.User)
	if o.Err != nil {
		if ErrorNamesInvalidTuplesetTuple(rc, o.Err) || V2TuplesetUsersetValue(rc, rq.Object, rq.Relation, rq.User) == ref.E {
			return prefix + "-" + FindingV2TuplesetUserset
		}
		return ""
	}
	if k == ref.E && SwallowExplainsV2(rc, rq.Object, rq.Relation, rq.User, o.Allowed) {
		return prefix + "-v2-" + FindingCondSwallowed
	}
	if ak := V2TuplesetUsersetValue(rc, rq.Object, rq.Relation, rq.User); ak >= 0 && ak != k && ((o.Allowed && ak == ref.T) || (!o.Allowed && ak == ref.F)) {
		return prefix + "-" + FindingV2TuplesetUserset
	}
	switch {
	case kind == "object" && k == ref.T && !o.Allowed && p.Ref.ReachesRecursion(typ, rq.Relation):
		return prefix + "-" + FindingV2SharedVisited
	case kind == "userset" && k == ref.T && !o.Allowed:
		uo, ur := ref.UserParts(rq.User)
		ut, _ := ref.SplitObject(uo)
		// The structural shapes of V2UsersetSubjectShortcut are counted by C03, not required: thorough C03
		// at seed 2 showed the engine also denies on cyclic direct edges (group#member <-> folder#editor).
		_, _ = ut, ur
		return prefix + "-v2-userset-subject-silent-divergence"
	case kind == "userset" && k == ref.F && o.Allowed && HasExclusion(p.Ref, typ, rq.Relation):
		return prefix + "-v2-userset-subject-allowed-under-exclusion"
	}
	return ""
}

// V2UsersetSubjectShortcut is the structural part of the listed finding "v2-userset-subject-silent-divergence":
// the weighted-graph engine answers a userset subject T#r by a direct tuple lookup where the edge to T#r is
// not part of a cycle (it expands stored usersets only on recursive / tuple-cycle edges), and it does not
// see T#r when the target contains it by rewrite rules alone (computed userset, tuple-to-userset). A denial
// of a permitted userset subject was attributed to the finding only where one of the two shapes is on the
// way from the target relation — withdrawn: the unchanged engine also denies on cyclic direct edges (thorough
// C03, seed 2), so the shapes are counted as coverage information only.
func V2UsersetSubjectShortcut(m *ref.Model, typ, rel, subjType, subjRel string) bool {
	return m.HasAcyclicDirectEdgeTo(typ, rel, subjType, subjRel) || m.ReachesByRewrite(typ, rel, subjType, subjRel)
}

// ClassifyListUsersError attributes an unexpected ListUsers error to a known finding ("" if none).
func ClassifyListUsersError(prefix string, p *Prepared, typ, relation, filterType, filterRel string, err error) string {
	return ""
}

// ClassifyListUsersMissing attributes omitted users to a known finding of ListUsers ("" if none).
func ClassifyListUsersMissing(prefix string, p *Prepared, rc *ref.Case, object, relation, filterType, filterRel string, missing []string) string {
	return ClassifyListUsersExclusion(prefix, p, object, relation)
}

// FindingListUsersExclusion: ListUsers' bookkeeping of excluded users and wildcards across unions,
// intersections and nested exclusions is wrong: users removed by an exclusion in one branch are
// dropped although another branch grants them, users subtracted next to a wildcard are returned,
// nested exclusions return subtracted users.
const FindingListUsersExclusion = "listusers-exclusion-bookkeeping"

// ClassifyListUsersByModel attributes a deviating ListUsers answer (got) to FindingListUsersExclusion
// when the relation can involve an exclusion AND the executable model of the implementation's message
// calculus (lumodel.go) predicts exactly this answer. When the model cannot decide (the outcome depends
// on message order, or it gave up) the answer is attributed on the structural condition alone and
// notDecided is true. Returns "" when the model is determinate and predicts something else.
func ClassifyListUsersByModel(prefix string, p *Prepared, rc *ref.Case, object, relation, filterType, filterRel string, got []string, truncated bool) (finding string, notDecided bool) {
	typ, _ := ref.SplitObject(object)
	if !p.Ref.ReachesExclusion(typ, relation) {
		return "", false
	}
	pred, m := PredictListUsers(rc, object, relation, filterType, filterRel)
	if !m.Determinate() {
		return prefix + "-" + FindingListUsersExclusion, true
	}
	g := append([]string{}, got...)
	sort.Strings(g)
	if strings.Join(g, ",") == strings.Join(pred, ",") {
		return prefix + "-" + FindingListUsersExclusion, false
	}
	if truncated {
		// a result cut by a limit or deadline is explained when it is a subset of the prediction
		in := map[string]bool{}
		for _, u := range pred {
			in[u] = true
		}
		for _, u := range g {
			if !in[u] {
				return "", false
			}
		}
		return prefix + "-" + FindingListUsersExclusion, false
	}
	return "", false
}

// ClassifyListUsersExclusion is the structural firing condition of FindingListUsersExclusion: the
// requested relation can involve an exclusion (ref.Model.ReachesExclusion). Used by checks whose
// subject is not ListUsers itself; C06 uses ClassifyListUsersByModel.
func ClassifyListUsersExclusion(prefix string, p *Prepared, object, relation string) string {
	typ, _ := ref.SplitObject(object)
	if p.Ref.ReachesExclusion(typ, relation) {
		return prefix + "-" + FindingListUsersExclusion
	}
	return ""
}

// PipelineHangShape is the firing condition of the pipeline teardown deadlock finding
// (known_findings.json C21-pipeline-teardown-deadlock): the requested relation, or a relation reachable
// from it through computed usersets of the same type, contains the SAME recursive tuple-to-userset
// operand twice ("R from ts" inside the definition of R, with the type itself among the tupleset's
// parent types).
func PipelineHangShape(rm *ref.Model, typ, rel string) bool {
	seen := map[string]bool{}
	var walkRel func(r string) bool
	walkRel = func(r string) bool {
		if seen[r] {
			return false
		}
		seen[r] = true
		us := rm.Rewrite(typ, r)
		if us == nil {
			return false
		}
		count := map[string]int{}
		var computed []string
		var walk func(u *openfgav1.Userset)
		walk = func(u *openfgav1.Userset) {
			switch v := u.GetUserset().(type) {
			case *openfgav1.Userset_TupleToUserset:
				ts, cr := v.TupleToUserset.GetTupleset().GetRelation(), v.TupleToUserset.GetComputedUserset().GetRelation()
				if cr == r {
					for _, rr := range rm.Restrictions(typ, ts) {
						if rr.GetType() == typ {
							count[ts]++
						}
					}
				}
			case *openfgav1.Userset_ComputedUserset:
				computed = append(computed, v.ComputedUserset.GetRelation())
			case *openfgav1.Userset_Union:
				for _, c := range v.Union.GetChild() {
					walk(c)
				}
			case *openfgav1.Userset_Intersection:
				for _, c := range v.Intersection.GetChild() {
					walk(c)
				}
			case *openfgav1.Userset_Difference:
				walk(v.Difference.GetBase())
				walk(v.Difference.GetSubtract())
			}
		}
		walk(us)
		for _, n := range count {
			if n >= 2 {
				return true
			}
		}
		for _, cr := range computed {
			if walkRel(cr) {
				return true
			}
		}
		return false
	}
	return walkRel(rel)
}

// Hung reports whether one of the list requests was abandoned by the drive watchdog (drive.HangAfter)
// and books it. Termination is the subject of C20 and C21 (which attribute the listed pipeline teardown
// deadlock); every other check counts such a request as inconclusive and does not judge its answer.
func Hung(c *vk.Ctx, where string, los ...drive.ListOutcome) bool {
	for _, lo := range los {
		if lo.Hung {
			c.Inconclusive("list request abandoned by the watchdog after " + drive.HangAfter.String() + " (termination is judged by C20/C21) on " + where)
			c.Logf("HANG: list request on %s did not return within %s; not judged here", where, drive.HangAfter)
			return true
		}
	}
	return false
}
