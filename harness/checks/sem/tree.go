package sem

import (
	"sort"
	"strings"

	openfgav1 "github.com/openfga/api/proto/openfga/v1"
)

// CanonTree renders an Expand tree canonically: node kinds and names in place, leaf users and the
// computed usersets of a tuple-to-userset leaf sorted (their order follows tuple read order and is
// not part of the documented result).
func CanonTree(n *openfgav1.UsersetTree_Node) string {
	if n == nil {
		return "nil"
	}
	var sb strings.Builder
	sb.WriteString(n.GetName())
	switch v := n.GetValue().(type) {
	case *openfgav1.UsersetTree_Node_Leaf:
		switch l := v.Leaf.GetValue().(type) {
		case *openfgav1.UsersetTree_Leaf_Users:
			u := append([]string{}, l.Users.GetUsers()...)
			sort.Strings(u)
			sb.WriteString("{users:" + strings.Join(u, ",") + "}")
		case *openfgav1.UsersetTree_Leaf_Computed:
			sb.WriteString("{computed:" + l.Computed.GetUserset() + "}")
		case *openfgav1.UsersetTree_Leaf_TupleToUserset:
			var cs []string
			for _, c := range l.TupleToUserset.GetComputed() {
				cs = append(cs, c.GetUserset())
			}
			sort.Strings(cs)
			sb.WriteString("{ttu:" + l.TupleToUserset.GetTupleset() + "->" + strings.Join(cs, ",") + "}")
		default:
			sb.WriteString("{leaf?}")
		}
	case *openfgav1.UsersetTree_Node_Union:
		sb.WriteString("{union:" + canonNodes(v.Union.GetNodes()) + "}")
	case *openfgav1.UsersetTree_Node_Intersection:
		sb.WriteString("{intersection:" + canonNodes(v.Intersection.GetNodes()) + "}")
	case *openfgav1.UsersetTree_Node_Difference:
		sb.WriteString("{difference:" + CanonTree(v.Difference.GetBase()) + " - " + CanonTree(v.Difference.GetSubtract()) + "}")
	default:
		sb.WriteString("{?}")
	}
	return sb.String()
}

func canonNodes(ns []*openfgav1.UsersetTree_Node) string {
	var parts []string
	for _, n := range ns {
		parts = append(parts, CanonTree(n))
	}
	return "[" + strings.Join(parts, " ; ") + "]"
}
