package sem

import (
	"fmt"
	"math/rand"
	"os"
	"sort"
	"strings"
	"sync"

	openfgav1 "github.com/openfga/api/proto/openfga/v1"
	"google.golang.org/protobuf/types/known/structpb"

	"github.com/openfga/openfga/verifharness/drive"
	"github.com/openfga/openfga/verifharness/gen"
	"github.com/openfga/openfga/verifharness/ref"
	"github.com/openfga/openfga/verifharness/vk"
)

// Prepared is a generated case installed in a store of a server: the tuples were written under the
// permissive model (so that tuples invalid for the model under test are "left-over"), then the model
// under test was written and is the store's latest model.
type Prepared struct {
	Case     *gen.Case
	Store    string
	ModelID  string
	PermID   string
	Ref      *ref.Model
	Stored   []*openfgav1.TupleKey
	Features string
}

// Stats counts generator outcomes.
type Stats struct {
	mu       sync.Mutex
	Rejected int // model rejected by WriteAuthorizationModel
	Unstrat  int // negation through recursion: outside the property
	Prepared int
}

// Generate draws cases from r until the model is stratified (no negation through recursion) and
// accepted by the server's WriteAuthorizationModel (tried on a fresh store); rejected and
// unstratified models are counted and discarded. Returns nil after maxTries failures.
func Generate(c *vk.Ctx, srv *drive.Srv, r *rand.Rand, name string, opt gen.Options) (*gen.Case, string) {
	store := ""
	for try := 0; try < 20; try++ {
		gc := gen.NewCase(r, name, opt)
		rm := ref.NewModel(gc.Model, ref.TemplateCondEval)
		if !rm.Stratified {
			c.Count("models_unstratified_discarded", 1)
			continue
		}
		if store == "" {
			var err error
			store, err = srv.CreateStore(name)
			if err != nil {
				c.HarnessError("CreateStore: %v", err)
				return nil, ""
			}
		}
		if _, err := srv.WriteModel(store, gc.Model); err != nil {
			c.Count("models_rejected_by_server", 1)
			if os.Getenv("VERIF_DEBUG") != "" {
				c.Logf("model rejected: %v\n%s", err, rm.DSL())
			}
			continue
		}
		c.Count("models_accepted", 1)
		return gc, store
	}
	c.Count("generator_gave_up", 1)
	return nil, ""
}

// Install writes a generated case (whose model Generate found acceptable) into store: tuples under the
// permissive model, then the model under test again so that it is the latest.
func Install(c *vk.Ctx, srv *drive.Srv, gc *gen.Case, store string, stored []*openfgav1.TupleKey) (*Prepared, error) {
	rm := ref.NewModel(gc.Model, ref.TemplateCondEval)
	permID, err := srv.WriteModel(store, gc.Permissive)
	if err != nil {
		return nil, fmt.Errorf("permissive model rejected: %w", err)
	}
	if err := srv.WriteTuples(store, permID, stored); err != nil {
		return nil, fmt.Errorf("writing tuples under the permissive model: %w", err)
	}
	mid, err := srv.WriteModel(store, gc.Model)
	if err != nil {
		return nil, fmt.Errorf("model accepted once but rejected on rewrite: %w", err)
	}
	var feats []string
	for f := range gc.Features {
		feats = append(feats, f)
	}
	sort.Strings(feats)
	return &Prepared{Case: gc, Store: store, ModelID: mid, PermID: permID, Ref: rm, Stored: stored, Features: strings.Join(feats, "+")}, nil
}

// Request is one point of the request space.
type Request struct {
	Object, Relation, User string
	Ctx                    *structpb.Struct
}

// RequestSpace enumerates (object × relation × subject × context) for a case, bounded by sampling
// subjects (maxUsersets) and contexts (maxCtx).
func RequestSpace(r *rand.Rand, p *Prepared, maxUsersets, maxCtx int) (subjects []string, ctxs []*structpb.Struct, nodes [][2]string) {
	subjects = gen.Subjects(r, p.Case, maxUsersets)
	ctxs = p.Case.Contexts
	if len(ctxs) > maxCtx {
		ctxs = ctxs[:maxCtx]
	}
	for _, t := range p.Ref.TypeNames() {
		for _, rel := range p.Ref.RelationNames(t) {
			for _, o := range p.Case.ObjectsOf(t) {
				nodes = append(nodes, [2]string{o, rel})
			}
		}
	}
	return
}

// Verdict of comparing an outcome with the reference value.
type Verdict int

const (
	Agree      Verdict = iota
	NotJudged          // depth limit and similar: outside the property
	Mismatch           // decision differs from a decided reference value
	DecidedOnE         // a decision although the reference value is unknown (unevaluable condition matters)
	UnexpErr           // error although no unevaluable condition is in play
	Panicked
)

func (v Verdict) String() string {
	return [...]string{"agree", "not-judged", "mismatch", "decision-on-unevaluable", "unexpected-error", "panic"}[v]
}

// JudgeCheck applies the C01 acceptance relation: K=T ⇒ allowed, K=F ⇒ denied, K=E ⇒ the request
// fails. An error answer is additionally accepted whenever some valid tuple of the case has a
// condition that cannot be evaluated under the request context. Depth-limit errors are not judged.
func JudgeCheck(k ref.Tri, anyUnevaluable bool, o drive.Outcome) Verdict {
	if o.Code == "PANIC" {
		return Panicked
	}
	if o.Err != nil {
		if IsDepthError(o.Err) {
			return NotJudged
		}
		if k == ref.E || anyUnevaluable {
			return Agree
		}
		return UnexpErr
	}
	switch k {
	case ref.T:
		if o.Allowed {
			return Agree
		}
		return Mismatch
	case ref.F:
		if !o.Allowed {
			return Agree
		}
		return Mismatch
	}
	return DecidedOnE
}

// IsDepthError reports the "resolution too complex" error.
func IsDepthError(err error) bool {
	return err != nil && (drive.CodeOf(err) == "openfga_2002" || strings.Contains(err.Error(), "too many rewrite rules"))
}

// Witness builds the replayable description of a failing request.
func Witness(p *Prepared, cfg string, mode drive.Mode, rq Request, contextual []*openfgav1.TupleKey, expected string, got string) map[string]any {
	stored := p.Stored
	return map[string]any{
		"model_dsl":         p.Ref.DSL(),
		"stored_tuples":     gen.TupleStrings(stored),
		"contextual_tuples": gen.TupleStrings(contextual),
		"request":           map[string]any{"object": rq.Object, "relation": rq.Relation, "user": rq.User, "context": gen.CtxString(rq.Ctx)},
		"config":            cfg,
		"strategy_mode":     string(mode),
		"reference":         expected,
		"observed":          got,
		"case":              p.Case.Name,
	}
}

// ShapeOf is the semantic shape of a request: rewrite skeleton of the relation, subject kind, reference value.
func ShapeOf(p *Prepared, rq Request, k ref.Tri) string {
	t, _ := ref.SplitObject(rq.Object)
	return ref.Shape(p.Ref.Rewrite(t, rq.Relation)) + "|" + ref.UserKind(rq.User) + "|" + k.String() + "|" + p.Features
}
