package sem

import (
	"fmt"
	"math/rand"
	"os"
	"strconv"
	"sync"

	openfgav1 "github.com/openfga/api/proto/openfga/v1"

	"github.com/openfga/openfga/verifharness/drive"
	"github.com/openfga/openfga/verifharness/gen"
	"github.com/openfga/openfga/verifharness/ref"
	"github.com/openfga/openfga/verifharness/vk"
)

// CaseFn is the body executed for one installed case.
type CaseFn func(i int, r *rand.Rand, p *Prepared, contextual []*openfgav1.TupleKey)

// RunCases generates n cases (PRNG stream label-i), installs each into its own store of srv and calls
// fn, par cases at a time. With ctxOneIn > 0, one case in ctxOneIn passes a seeded part (≤6) of its
// model-valid tuples as contextual tuples instead of storing them.
func RunCases(c *vk.Ctx, srv *drive.Srv, label string, n int, opt gen.Options, ctxOneIn int, par int, fn CaseFn) {
	var wg sync.WaitGroup
	slots := make(chan struct{}, par)
	for i := 0; i < n; i++ {
		if only := os.Getenv("VERIF_ONLY_CASE"); only != "" && only != strconv.Itoa(i) { // debugging aid
			continue
		}
		wg.Add(1)
		slots <- struct{}{}
		go func(i int) {
			defer wg.Done()
			defer func() { <-slots }()
			r := c.Rand(fmt.Sprintf("case-%s-%d", label, i))
			o := opt
			if o.WideEvery > 0 && i%o.WideEvery == o.WideEvery-1 {
				o.Wide = true
			}
			if o.AlgebraEvery > 0 && i%o.AlgebraEvery == o.AlgebraEvery-2 {
				o.Algebra = true
			}
			if o.HierarchyEvery > 0 && i%o.HierarchyEvery == 0 && !o.Algebra {
				o.Hierarchy, o.Wide = true, false
			}
			if o.MutualEvery > 0 && i%o.MutualEvery == 1 && !o.Algebra && !o.Hierarchy {
				o.Mutual, o.Wide = true, false
			}
			gc, store := Generate(c, srv, r, fmt.Sprintf("%s-%s-%d", c.ID, label, i), o)
			if gc == nil {
				return
			}
			rm := ref.NewModel(gc.Model, ref.TemplateCondEval)
			var stored, contextual []*openfgav1.TupleKey
			useCtx := ctxOneIn > 0 && r.Intn(ctxOneIn) == 0
			for _, tk := range gc.Tuples {
				if useCtx && len(contextual) < 6 && rm.ValidForRead(tk) && r.Intn(3) == 0 {
					contextual = append(contextual, tk)
				} else {
					stored = append(stored, tk)
				}
			}
			p, err := Install(c, srv, gc, store, stored)
			if err != nil {
				c.HarnessError("case %s-%d: %v", label, i, err)
				return
			}
			fn(i, r, p, contextual)
		}(i)
	}
	wg.Wait()
}

// AllTuples returns stored ∪ contextual.
func (p *Prepared) AllTuples(contextual []*openfgav1.TupleKey) []*openfgav1.TupleKey {
	return append(append([]*openfgav1.TupleKey{}, p.Stored...), contextual...)
}

// ExtraObjects lists request objects and subjects so that the reference universe contains them.
func ExtraObjects(nodes [][2]string, subjects []string) []string {
	var out []string
	for _, n := range nodes {
		out = append(out, n[0])
	}
	return append(out, subjects...)
}

// SampleRequests draws up to n distinct requests (node × subject) from the request space,
// preferring requests whose reference value is not F (those are rarer and more informative).
func SampleRequests(r *rand.Rand, rc *ref.Case, nodes [][2]string, subjects []string, n int) []Request {
	type cand struct {
		rq Request
		k  ref.Tri
	}
	var hot, cold []cand
	for _, s := range subjects {
		res := rc.Eval(s)
		for _, nd := range nodes {
			k := res.K(nd[0], nd[1])
			cd := cand{Request{Object: nd[0], Relation: nd[1], User: s, Ctx: rc.Context}, k}
			if k != ref.F {
				hot = append(hot, cd)
			} else {
				cold = append(cold, cd)
			}
		}
	}
	r.Shuffle(len(hot), func(i, j int) { hot[i], hot[j] = hot[j], hot[i] })
	r.Shuffle(len(cold), func(i, j int) { cold[i], cold[j] = cold[j], cold[i] })
	var out []Request
	for _, cd := range hot {
		if len(out) >= (n*2)/3 {
			break
		}
		out = append(out, cd.rq)
	}
	for _, cd := range cold {
		if len(out) >= n {
			break
		}
		out = append(out, cd.rq)
	}
	return out
}
