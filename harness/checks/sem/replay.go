package sem

import (
	"encoding/json"
	"fmt"
	"os"
	"sort"
	"strings"
	"time"

	openfgav1 "github.com/openfga/api/proto/openfga/v1"
	"google.golang.org/protobuf/encoding/protojson"
	"google.golang.org/protobuf/types/known/structpb"

	"github.com/openfga/openfga/verifharness/drive"
	"github.com/openfga/openfga/verifharness/gen"
	"github.com/openfga/openfga/verifharness/ref"
	"github.com/openfga/openfga/verifharness/vk"
)

// Machine-readable part of a witness.
type wire struct {
	Model      json.RawMessage   `json:"model_json"`
	Permissive json.RawMessage   `json:"permissive_json"`
	Stored     []json.RawMessage `json:"stored_json"`
	Contextual []json.RawMessage `json:"contextual_json"`
	Ctx        json.RawMessage   `json:"context_json"`
	Request    struct {
		Object, Relation, User string
	} `json:"request"`
	Config string `json:"config"`
	Mode   string `json:"strategy_mode"`
}

func tuplesJSON(tks []*openfgav1.TupleKey) []json.RawMessage {
	var out []json.RawMessage
	for _, tk := range tks {
		b, _ := protojson.Marshal(tk)
		out = append(out, b)
	}
	return out
}

// AddWire adds the machine-readable fields used by --replay to a witness map.
func AddWire(w map[string]any, p *Prepared, contextual []*openfgav1.TupleKey, ctx *structpb.Struct) {
	mb, _ := protojson.Marshal(p.Case.Model)
	pb, _ := protojson.Marshal(p.Case.Permissive)
	w["model_json"] = json.RawMessage(mb)
	w["permissive_json"] = json.RawMessage(pb)
	w["stored_json"] = tuplesJSON(p.Stored)
	w["contextual_json"] = tuplesJSON(contextual)
	if ctx != nil {
		cb, _ := protojson.Marshal(ctx)
		w["context_json"] = json.RawMessage(cb)
	}
}

// ReplayCheck re-executes the Check of a witness file under every strategy mode and engine and
// prints the reference value next to the answers. It reports a violation when the disagreement
// recorded in the file still reproduces.
func ReplayCheck(c *vk.Ctx, path string) {
	b, err := os.ReadFile(path)
	if err != nil {
		c.HarnessError("replay: %v", err)
		return
	}
	var doc struct {
		Witness wire `json:"witness"`
	}
	if err := json.Unmarshal(b, &doc); err != nil {
		c.HarnessError("replay: %v", err)
		return
	}
	w := doc.Witness
	model := &openfgav1.AuthorizationModel{}
	perm := &openfgav1.AuthorizationModel{}
	if err := protojson.Unmarshal(w.Model, model); err != nil {
		c.HarnessError("replay: model: %v", err)
		return
	}
	_ = protojson.Unmarshal(w.Permissive, perm)
	parse := func(raw []json.RawMessage) []*openfgav1.TupleKey {
		var out []*openfgav1.TupleKey
		for _, r := range raw {
			tk := &openfgav1.TupleKey{}
			if err := protojson.Unmarshal(r, tk); err == nil {
				out = append(out, tk)
			}
		}
		return out
	}
	stored, contextual := parse(w.Stored), parse(w.Contextual)
	var rctx *structpb.Struct
	if len(w.Ctx) > 0 {
		rctx = &structpb.Struct{}
		_ = protojson.Unmarshal(w.Ctx, rctx)
	}
	rm := ref.NewModel(model, ref.TemplateCondEval)
	all := append(append([]*openfgav1.TupleKey{}, stored...), contextual...)
	rc := ref.NewCase(rm, all, rctx, w.Request.Object, w.Request.User)
	k := rc.Eval(w.Request.User).K(w.Request.Object, w.Request.Relation)
	fmt.Printf("REPLAY %s\n%s\nstored: %v\ncontextual: %v\nrequest: %s#%s@%s ctx=%s\nreference: %s\n", path, rm.DSL(),
		gen.TupleStrings(stored), gen.TupleStrings(contextual), w.Request.Object, w.Request.Relation, w.Request.User, gen.CtxString(rctx), k)
	if os.Getenv("VERIF_MINIMIZE") != "" {
		stored = minimize(c, model, perm, stored, contextual, rctx, w.Request.Object, w.Request.Relation, w.Request.User, drive.Mode(w.Mode))
		fmt.Printf("MINIMIZED stored tuples (mode %q): %v\n", w.Mode, gen.TupleStrings(stored))
		all = append(append([]*openfgav1.TupleKey{}, stored...), contextual...)
		rc = ref.NewCase(rm, all, rctx, w.Request.Object, w.Request.User)
		k = rc.Eval(w.Request.User).K(w.Request.Object, w.Request.Relation)
		fmt.Printf("reference after minimisation: %s\n", k)
	}
	for _, v2 := range []bool{false, true} {
		srv, err := drive.New(drive.Cfg{V2: v2})
		if err != nil {
			c.HarnessError("replay: %v", err)
			return
		}
		gc := &gen.Case{Name: "replay", Model: model, Permissive: perm}
		store, _ := srv.CreateStore("replay")
		p, err := Install(c, srv, gc, store, stored)
		if err != nil {
			c.HarnessError("replay install: %v", err)
			srv.Close()
			return
		}
		for _, mode := range []drive.Mode{"default", "fast", ""} {
			drive.ForceStore(p.Store, mode)
			o := srv.Check(drive.Req{Store: p.Store, Object: w.Request.Object, Relation: w.Request.Relation, User: w.Request.User, Ctx: rctx, Contextual: contextual})
			v := JudgeCheck(k, rc.AnyUnevaluable(), o)
			fmt.Printf("  engine v2=%v mode=%-8q -> %s [%s]\n", v2, mode, o, v)
			c.Case(fmt.Sprintf("replay|%v|%s", v2, mode), true)
			if v != Agree && v != NotJudged && !v2 {
				c.Violation(ClassifyCheck(c.ID, rc, Request{Object: w.Request.Object, Relation: w.Request.Relation, User: w.Request.User, Ctx: rctx}, k, o, mode),
					fmt.Sprintf("replay|%v|%s", v2, mode), fmt.Sprintf("replayed disagreement: reference %s, server %s", k, o), map[string]any{"file": path})
			}
		}
		srv.Close()
	}
}

// minimize greedily removes stored tuples while the v1 engine under the given mode still disagrees
// with the reference (any non-agree verdict).
func minimize(c *vk.Ctx, model, perm *openfgav1.AuthorizationModel, stored, contextual []*openfgav1.TupleKey, rctx *structpb.Struct, object, relation, user string, mode drive.Mode) []*openfgav1.TupleKey {
	rm := ref.NewModel(model, ref.TemplateCondEval)
	srv, err := drive.New(drive.Cfg{V2: os.Getenv("VERIF_MINIMIZE") == "v2"})
	if err != nil {
		return stored
	}
	defer srv.Close()
	var wantV Verdict = -1
	var wantK ref.Tri
	bad := func(ts []*openfgav1.TupleKey) bool {
		gc := &gen.Case{Name: "min", Model: model, Permissive: perm}
		store, _ := srv.CreateStore("min")
		p, err := Install(c, srv, gc, store, ts)
		if err != nil {
			return false
		}
		all := append(append([]*openfgav1.TupleKey{}, ts...), contextual...)
		rc := ref.NewCase(rm, all, rctx, object, user)
		k := rc.Eval(user).K(object, relation)
		drive.ForceStore(p.Store, mode)
		for i := 0; i < 3; i++ {
			o := srv.Check(drive.Req{Store: p.Store, Object: object, Relation: relation, User: user, Ctx: rctx, Contextual: contextual})
			v := JudgeCheck(k, rc.AnyUnevaluable(), o)
			if os.Getenv("VERIF_DEBUG") != "" {
				fmt.Printf("  minimize: %d tuples -> k=%s answer=%s verdict=%s\n", len(ts), k, o, v)
			}
			if v != Agree && v != NotJudged {
				if wantV == -1 {
					wantV, wantK = v, k
				}
				if v == wantV && k == wantK {
					return true
				}
			}
		}
		return false
	}
	if !bad(stored) {
		return stored
	}
	cur := stored
	for changed := true; changed; {
		changed = false
		for i := 0; i < len(cur); i++ {
			cand := append(append([]*openfgav1.TupleKey{}, cur[:i]...), cur[i+1:]...)
			if bad(cand) {
				cur = cand
				changed = true
				i--
			}
		}
	}
	return cur
}

// ReplayList re-executes a ListObjects witness on the three engines, optionally (VERIF_MINIMIZE)
// shrinking the stored tuples while the named engine still deviates from the reference set.
func ReplayList(c *vk.Ctx, path string) {
	b, err := os.ReadFile(path)
	if err != nil {
		c.HarnessError("replay: %v", err)
		return
	}
	var doc struct {
		Witness wire `json:"witness"`
	}
	if err := json.Unmarshal(b, &doc); err != nil {
		c.HarnessError("replay: %v", err)
		return
	}
	w := doc.Witness
	model := &openfgav1.AuthorizationModel{}
	perm := &openfgav1.AuthorizationModel{}
	if err := protojson.Unmarshal(w.Model, model); err != nil {
		c.HarnessError("replay: model: %v", err)
		return
	}
	_ = protojson.Unmarshal(w.Permissive, perm)
	parse := func(raw []json.RawMessage) []*openfgav1.TupleKey {
		var out []*openfgav1.TupleKey
		for _, r := range raw {
			tk := &openfgav1.TupleKey{}
			if err := protojson.Unmarshal(r, tk); err == nil {
				out = append(out, tk)
			}
		}
		return out
	}
	stored, contextual := parse(w.Stored), parse(w.Contextual)
	var rctx *structpb.Struct
	if len(w.Ctx) > 0 {
		rctx = &structpb.Struct{}
		_ = protojson.Unmarshal(w.Ctx, rctx)
	}
	rm := ref.NewModel(model, ref.TemplateCondEval)
	typ, rel, user := w.Request.Object, w.Request.Relation, w.Request.User
	engines := []string{"classic", "optimized", "pipeline", "classic-limit1", "pipeline-limit1", "optimized-limit1"}
	answers := func(ts []*openfgav1.TupleKey) (want []string, got map[string]string) {
		got = map[string]string{}
		rc := ref.NewCase(rm, append(append([]*openfgav1.TupleKey{}, ts...), contextual...), rctx, user)
		want, _ = RefListObjects(rc, typ, rel, user)
		base, err := drive.New(drive.Cfg{})
		if err != nil {
			return
		}
		defer base.Close()
		gc := &gen.Case{Name: "replay", Model: model, Permissive: perm}
		store, _ := base.CreateStore("replay")
		p, err := Install(c, base, gc, store, ts)
		if err != nil {
			return
		}
		for _, e := range engines {
			cfg := drive.Cfg{LOEngine: strings.TrimSuffix(e, "-limit1")}
			if strings.HasSuffix(e, "-limit1") {
				cfg.LOMax = 1
			}
			s, err := drive.NewShared(cfg, base)
			if err != nil {
				continue
			}
			var lo drive.ListOutcome
			if !drive.Watch(8*time.Second, func() {
				lo = s.ListObjects(drive.Req{Store: p.Store, Object: typ, Relation: rel, User: user, Ctx: rctx, Contextual: contextual, Deadline: 3 * time.Second})
			}) {
				got[e] = "HANG"
				continue // the server is abandoned (cannot be closed while a request hangs)
			}
			if lo.Err != nil {
				got[e] = "error: " + drive.ErrDetail(lo.Err)
			} else {
				items := append([]string{}, lo.Items...)
				sort.Strings(items)
				got[e] = strings.Join(items, ",")
			}
			s.Close()
		}
		return
	}
	if eng := os.Getenv("VERIF_MINIMIZE"); eng != "" {
		bad := func(ts []*openfgav1.TupleKey) bool {
			want, got := answers(ts)
			if os.Getenv("VERIF_MINIMIZE_HANG") != "" {
				return got[eng] == "HANG"
			}
			if strings.HasSuffix(eng, "-limit1") {
				return len(want) >= 1 && got[eng] == ""
			}
			return got[eng] != strings.Join(want, ",")
		}
		if bad(stored) {
			for changed := true; changed; {
				changed = false
				for i := 0; i < len(stored); i++ {
					cand := append(append([]*openfgav1.TupleKey{}, stored[:i]...), stored[i+1:]...)
					if bad(cand) {
						stored = cand
						changed = true
						i--
					}
				}
			}
		}
	}
	want, got := answers(stored)
	fmt.Printf("REPLAY %s\n%s\nstored: %v\ncontextual: %v\nListObjects(%s, %s, %s) ctx=%s\nreference: %v\n", path, rm.DSL(), gen.TupleStrings(stored), gen.TupleStrings(contextual), typ, rel, user, gen.CtxString(rctx), want)
	for _, e := range engines {
		fmt.Printf("  engine %-16s -> [%s]\n", e, got[e])
		c.Case("replay|"+e, true)
		if strings.HasSuffix(e, "-limit1") {
			if len(want) >= 1 && got[e] == "" {
				c.Violation("", "replay|"+e, fmt.Sprintf("replayed: engine %s returned nothing, reference %v", e, want), map[string]any{"file": path})
			}
			continue
		}
		if got[e] != strings.Join(want, ",") {
			c.Violation("", "replay|"+e, fmt.Sprintf("replayed: engine %s returned [%s], reference %v", e, got[e], want), map[string]any{"file": path})
		}
	}
}

// ReplayListUsers re-executes a ListUsers witness (request.user holds "type#relation" of the filter),
// prints the reference expectation and the per-user Check answers, and (VERIF_MINIMIZE) shrinks the
// stored tuples while ListUsers still deviates from the reference.
func ReplayListUsers(c *vk.Ctx, path string) {
	b, err := os.ReadFile(path)
	if err != nil {
		c.HarnessError("replay: %v", err)
		return
	}
	var doc struct {
		Witness wire `json:"witness"`
	}
	if err := json.Unmarshal(b, &doc); err != nil {
		c.HarnessError("replay: %v", err)
		return
	}
	w := doc.Witness
	model := &openfgav1.AuthorizationModel{}
	perm := &openfgav1.AuthorizationModel{}
	if err := protojson.Unmarshal(w.Model, model); err != nil {
		c.HarnessError("replay: model: %v", err)
		return
	}
	_ = protojson.Unmarshal(w.Permissive, perm)
	parse := func(raw []json.RawMessage) []*openfgav1.TupleKey {
		var out []*openfgav1.TupleKey
		for _, r := range raw {
			tk := &openfgav1.TupleKey{}
			if err := protojson.Unmarshal(r, tk); err == nil {
				out = append(out, tk)
			}
		}
		return out
	}
	stored, contextual := parse(w.Stored), parse(w.Contextual)
	var rctx *structpb.Struct
	if len(w.Ctx) > 0 {
		rctx = &structpb.Struct{}
		_ = protojson.Unmarshal(w.Ctx, rctx)
	}
	rm := ref.NewModel(model, ref.TemplateCondEval)
	object, rel := w.Request.Object, w.Request.Relation
	ft, fr := ref.UserParts(w.Request.User)
	srv, err := drive.New(drive.Cfg{LUDeadline: 2 * time.Second})
	if err != nil {
		c.HarnessError("replay: %v", err)
		return
	}
	defer srv.Close()
	run := func(ts []*openfgav1.TupleKey, verbose bool) bool {
		var extra []string
		for _, id := range gen.UserIDs {
			extra = append(extra, "user:"+id)
		}
		rc := ref.NewCase(rm, append(append([]*openfgav1.TupleKey{}, ts...), contextual...), rctx, append(extra, object)...)
		exp := RefListUsers(rc, object, rel, ft, fr)
		gc := &gen.Case{Name: "replay", Model: model, Permissive: perm}
		store, _ := srv.CreateStore("replay")
		p, err := Install(c, srv, gc, store, ts)
		if err != nil {
			return false
		}
		lo := srv.ListUsers(drive.Req{Store: p.Store, Object: object, Relation: rel, Ctx: rctx, Contextual: contextual}, ft, fr)
		got := append([]string{}, lo.Items...)
		sort.Strings(got)
		wild := false
		for _, g := range got {
			if ref.IsWildcard(g) {
				wild = true
			}
		}
		bad := lo.Err != nil
		for _, g := range got {
			if rc.Eval(g).K(object, rel) != ref.T {
				bad = true
			}
		}
		if !wild {
			for _, u := range exp.Concrete {
				found := false
				for _, g := range got {
					if g == u {
						found = true
					}
				}
				if !found {
					bad = true
				}
			}
		}
		if verbose {
			fmt.Printf("stored: %v\ncontextual: %v\nListUsers(%s#%s, filter %s#%s) ctx=%s -> %v err=%v\nreference: concrete=%v wildcard=%v\n", gen.TupleStrings(ts), gen.TupleStrings(contextual), object, rel, ft, fr, gen.CtxString(rctx), got, lo.Err, exp.Concrete, exp.Wildcard)
			for u, k := range exp.Values {
				o := srv.Check(drive.Req{Store: p.Store, Object: object, Relation: rel, User: u, Ctx: rctx, Contextual: contextual})
				fmt.Printf("  Check(@%s): reference %s, server %s\n", u, k, o)
			}
		}
		return bad
	}
	fmt.Printf("REPLAY %s\n%s\n", path, rm.DSL())
	if os.Getenv("VERIF_MINIMIZE") != "" && run(stored, false) {
		for changed := true; changed; {
			changed = false
			for i := 0; i < len(stored); i++ {
				cand := append(append([]*openfgav1.TupleKey{}, stored[:i]...), stored[i+1:]...)
				if run(cand, false) {
					stored = cand
					changed = true
					i--
				}
			}
		}
	}
	c.Case("replay", true)
	c.Case("replay2", true)
	if run(stored, true) {
		c.Violation("", "replay", "replayed ListUsers deviation reproduces", map[string]any{"file": path})
	}
}
