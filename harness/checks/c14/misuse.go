package c14

import (
	"crypto/aes"
	"crypto/cipher"
	crand "crypto/rand"
	"crypto/sha256"
	"encoding/base64"
	"encoding/json"
	"fmt"
	"regexp"
	"strings"
	"sync"

	"github.com/oklog/ulid/v2"
	"google.golang.org/grpc/status"

	"github.com/openfga/openfga/verifharness/checks/srvkit"
	"github.com/openfga/openfga/verifharness/vk"
)

// ---------------------------------------------------------------------------------------------
// Reference token grammar (written from the token formats, stdlib + oklog/ulid only).

// envelope: plain = base64url(payload); encrypted = base64url(nonce(12) || AES-256-GCM(payload)),
// key = sha256(key string).
func gcm() cipher.AEAD {
	k := sha256.Sum256([]byte(srvkit.TokenKey))
	b, err := aes.NewCipher(k[:])
	if err != nil {
		panic(err)
	}
	g, err := cipher.NewGCM(b)
	if err != nil {
		panic(err)
	}
	return g
}

func seal(cfg srvkit.Config, payload string) string {
	raw := []byte(payload)
	if cfg.Encrypted && len(raw) > 0 {
		g := gcm()
		nonce := make([]byte, g.NonceSize())
		_, _ = crand.Read(nonce)
		raw = g.Seal(nonce, nonce, raw, nil)
	}
	return base64.URLEncoding.EncodeToString(raw)
}

// unseal returns the payload, or a class naming why the envelope cannot be opened.
func unseal(cfg srvkit.Config, token string) (payload string, badClass string) {
	raw, err := base64.URLEncoding.DecodeString(token)
	if err != nil {
		return "", "undecodable-base64"
	}
	if cfg.Encrypted && len(raw) > 0 {
		g := gcm()
		if len(raw) < g.NonceSize() {
			return "", "undecryptable"
		}
		pt, err := g.Open(nil, raw[:g.NonceSize()], raw[g.NonceSize():], nil)
		if err != nil {
			return "", "undecryptable"
		}
		raw = pt
	}
	return string(raw), ""
}

var (
	reUnsigned = regexp.MustCompile(`^\+?[0-9]+$`)
	reNegative = regexp.MustCompile(`^-[0-9]*[1-9][0-9]*$`)
)

type verdict int

const (
	wellFormed verdict = iota // nothing is demanded (but no panic)
	opaque                    // parses, position string outside the ULID alphabet/length: counted only
	malformed                 // outside the envelope/serializer grammar: must be rejected with an error
	mismatch                  // well-formed ReadChanges token bound to another type: must be rejected
	noToken                   // decodes to the empty payload = "first page"
)

func offsetClass(pos string) (string, verdict) {
	switch {
	case reUnsigned.MatchString(pos), pos == "-0":
		return "offset", wellFormed
	case reNegative.MatchString(pos):
		return "negative-offset", malformed
	case pos == "":
		return "empty-position", malformed
	}
	return "non-numeric-offset", malformed
}

func ulidClass(pos string) (string, verdict) {
	if pos == "" {
		return "empty-position", malformed
	}
	if _, err := ulid.ParseStrict(pos); err == nil {
		return "ulid", wellFormed
	}
	return "non-ulid-position", opaque
}

// classify applies the reference grammar of (backend, api) to a token; reqType is the type filter of
// the ReadChanges request the token is sent with.
func classify(cfg srvkit.Config, api, token, reqType string) (class string, v verdict) {
	payload, bad := unseal(cfg, token)
	if bad != "" {
		return bad, malformed
	}
	if payload == "" {
		return "empty-payload", noToken
	}
	mem := cfg.Backend == srvkit.Memory
	switch api {
	case apiListStores, apiReadModels:
		if mem {
			return offsetClass(payload)
		}
		return ulidClass(payload)
	}
	// Read / ReadChanges go through the continuation-token serializer
	var pos, typ string
	if mem {
		var found bool
		pos, typ, found = strings.Cut(payload, "|")
		if !found {
			return "no-separator", malformed
		}
	} else {
		var t struct {
			Ulid       string `json:"ulid"`
			ObjectType string `json:"ObjectType"`
		}
		if err := json.Unmarshal([]byte(payload), &t); err != nil {
			return "bad-json", malformed
		}
		pos, typ = t.Ulid, t.ObjectType
	}
	if api == apiRead {
		if mem {
			return offsetClass(pos)
		}
		return ulidClass(pos)
	}
	class, v = ulidClass(pos)
	if mem && v == opaque && len(pos) != ulid.EncodedSize {
		class, v = "wrong-length-ulid", malformed // a ULID has exactly 26 characters
	}
	if v != malformed && typ != reqType {
		return "type-mismatch", mismatch
	}
	return class, v
}

// ---------------------------------------------------------------------------------------------

var (
	outcomeMu    sync.Mutex
	outcomeTable = map[string]int{} // backend|api|token class|outcome -> calls
)

const tokenAlphabet = "ABCDEFGHIJKLMNOPQRSTUVWXYZabcdefghijklmnopqrstuvwxyz0123456789-_"

type misuse struct {
	api     string
	reqType string // ReadChanges type filter
	token   string
	origin  string // how the token was made
}

func errCode(err error) string {
	if s, ok := status.FromError(err); ok {
		return fmt.Sprintf("code=%d", uint32(s.Code()))
	}
	return "non-status-error"
}

func misuseCase(c *vk.Ctx, cfg srvkit.Config) {
	e := open(c, cfg)
	if e == nil {
		return
	}
	defer e.inst.Close()
	r := c.Rand("misuse/" + cfg.String())

	// data: 5 extra stores, one store with 7 models and 24 tuples of three types (single-tuple writes)
	for i := 0; i < 5; i++ {
		e.mustStore([]string{"alpha", "beta"}[i%2])
	}
	store := e.mustStore("misuse")
	if store == "" {
		return
	}
	for i := 0; i < 6; i++ {
		e.mustModel(store, fmt.Sprintf("model\n  schema 1.1\ntype user\ntype t%d\n", i))
	}
	if e.mustModel(store, modelDSL) == "" {
		return
	}
	u := universe()
	r.Shuffle(len(u), func(i, j int) { u[i], u[j] = u[j], u[i] })
	for _, t := range u[:24] {
		if err := e.write(store, request{writes: []tup{t}}); err != nil {
			c.HarnessError("%s misuse Write: %v", cfg, err)
			return
		}
	}

	call := func(m misuse) outcome {
		switch m.api {
		case apiRead:
			return e.read(store, filter{}, m.token, 3)
		case apiReadChanges:
			return e.readChanges(store, m.reqType, m.token, 3)
		case apiListStores:
			return e.listStores("", m.token, 2)
		}
		return e.readModels(store, m.token, 2)
	}

	// genuine tokens issued by the server
	type genuine struct {
		api, reqType, token string
	}
	var gen []genuine
	grab := func(api, reqType string) {
		o := call(misuse{api: api, reqType: reqType})
		if o.err != nil || o.panic != "" || o.next == "" {
			c.HarnessError("%s misuse: could not obtain a genuine %s token (type=%q): err=%v panic=%s", cfg, api, reqType, o.err, firstLine(o.panic))
			return
		}
		// take the second token as well so that offsets have one and two digits
		gen = append(gen, genuine{api, reqType, o.next})
	}
	grab(apiRead, "")
	grab(apiReadChanges, "")
	grab(apiReadChanges, "document")
	grab(apiReadChanges, "documents")
	grab(apiListStores, "")
	grab(apiReadModels, "")
	if len(gen) != 6 {
		return
	}
	// a deeper Read token (two-digit offset on memory): page size 3, four pages in
	{
		tok := ""
		for i := 0; i < 4; i++ {
			o := e.read(store, filter{}, tok, 3)
			if o.err != nil || o.panic != "" || o.next == "" {
				break
			}
			tok = o.next
		}
		if tok != "" {
			gen = append(gen, genuine{apiRead, "", tok})
		}
	}

	var tests []misuse
	// (1) ReadChanges type binding: every issued-with/used-with combination
	for _, g := range gen {
		if g.api != apiReadChanges {
			continue
		}
		for _, used := range []string{"", "document", "documents", "group"} {
			if used != g.reqType {
				tests = append(tests, misuse{apiReadChanges, used, g.token, fmt.Sprintf("genuine ReadChanges token issued with type=%q replayed with type=%q", g.reqType, used)})
			}
		}
	}
	// (2) mutations of genuine tokens, inside the base64url alphabet
	perTok := c.Pick(90, 400)
	for _, g := range gen {
		var muts []misuse
		add := func(tok, how string) {
			if tok != "" && tok != g.token {
				muts = append(muts, misuse{g.api, g.reqType, tok, how + " of genuine " + g.api + " token " + g.token})
			}
		}
		for i := 0; i < len(g.token); i++ {
			if g.token[i] == '=' {
				continue
			}
			for k := 0; k < 2; k++ {
				ch := tokenAlphabet[r.Intn(len(tokenAlphabet))]
				add(g.token[:i]+string(ch)+g.token[i+1:], fmt.Sprintf("substitution at %d", i))
			}
			// nearest neighbours in the alphabet flip low bits of the decoded byte (digit -> digit / '-')
			if p := strings.IndexByte(tokenAlphabet, g.token[i]); p >= 0 {
				add(g.token[:i]+string(tokenAlphabet[(p+63)%64])+g.token[i+1:], fmt.Sprintf("substitution(-1) at %d", i))
				add(g.token[:i]+string(tokenAlphabet[(p+1)%64])+g.token[i+1:], fmt.Sprintf("substitution(+1) at %d", i))
			}
		}
		for i := 1; i < len(g.token); i++ {
			add(g.token[:i], fmt.Sprintf("truncation to %d", i))
			add(g.token[i:], fmt.Sprintf("head cut by %d", i))
		}
		for _, suf := range []string{"A", "AA", "AAAA", "=", "QUJD", "fA==", "LTU="} {
			add(g.token+suf, "extension "+suf)
			add(suf+g.token, "prefix "+suf)
		}
		add(strings.TrimRight(g.token, "="), "padding removed")
		add(strings.ToLower(g.token), "lower-cased")
		r.Shuffle(len(muts), func(i, j int) { muts[i], muts[j] = muts[j], muts[i] })
		if len(muts) > perTok {
			muts = muts[:perTok]
		}
		tests = append(tests, muts...)
	}
	// (3) synthetic payloads in a correct envelope
	var payloads map[string][]string
	if cfg.Backend == srvkit.Memory {
		offs := []string{"-5|", "-1|", "-9223372036854775808|", "-5", "abc|", "1.5|", "0x10|", "1e3|", " 3|", "3 |", "|", "|document", "5",
			"99999999999999999999|", "1099511627776|", "-0|", "٣|"}
		raw := []string{"-5", "-1", "-9223372036854775808", "abc", "1.5", "0x10", " 3", "5|", "|", "99999999999999999999", "1099511627776", "٣"}
		payloads = map[string][]string{
			apiRead: offs,
			apiReadChanges: {"-5|", "abc|", "|", "5|", "01ARZ3NDEKTSV4RRFFQ69G5FA|", "01ARZ3NDEKTSV4RRFFQ69G5FAVX|", "UUUUUUUUUUUUUUUUUUUUUUUUUU|",
				"01ARZ3NDEKTSV4RRFFQ69G5FAV", "{\"ulid\":\"01ARZ3NDEKTSV4RRFFQ69G5FAV\",\"ObjectType\":\"\"}"},
			apiListStores: raw,
			apiReadModels: raw,
		}
	} else {
		js := []string{"{}", "null", "{\"ulid\":\"\"}", "{\"ulid\":\"\",\"ObjectType\":\"\"}", "{\"ObjectType\":\"document\"}", "[]", "\"x\"", "5", "{\"ulid\":5}",
			"{\"ulid\":\"xyz\"}", "{\"ulid\":", "-5|", "01ARZ3NDEKTSV4RRFFQ69G5FAV|", "{\"ulid\":null}", "true", " "}
		raw := []string{"xyz", "-5", "0", "'; DROP TABLE store; --", "01ARZ3NDEKTSV4RRFFQ69G5FA", "zzzzzzzzzzzzzzzzzzzzzzzzzz"}
		payloads = map[string][]string{apiRead: js, apiReadChanges: js, apiListStores: raw, apiReadModels: raw}
	}
	for _, api := range []string{apiRead, apiReadChanges, apiListStores, apiReadModels} {
		for _, p := range payloads[api] {
			tests = append(tests, misuse{api, "", seal(cfg, p), fmt.Sprintf("synthetic payload %q", p)})
			if api == apiReadChanges {
				tests = append(tests, misuse{api, "document", seal(cfg, p), fmt.Sprintf("synthetic payload %q", p)})
			}
		}
	}
	// (4) tokens of one API handed to another (counted; judged only if the grammar calls them malformed)
	for _, g := range gen {
		for _, api := range []string{apiRead, apiReadChanges, apiListStores, apiReadModels} {
			if api != g.api {
				tests = append(tests, misuse{api, "", g.token, "genuine " + g.api + " token handed to " + api})
			}
		}
	}

	for _, m := range tests {
		class, v := classify(cfg, m.api, m.token, m.reqType)
		if v == noToken {
			continue
		}
		o := call(m)
		c.Count("misuse_calls", 1)
		result := "page"
		switch {
		case o.panic != "":
			result = "panic"
		case o.err != nil:
			result = "error:" + errCode(o.err)
		}
		c.Seen("misuse_outcomes", m.api+"|"+class+"|"+result)
		outcomeMu.Lock()
		outcomeTable[cfg.Backend+"|"+m.api+"|"+class+"|"+result]++
		outcomeMu.Unlock()
		c.Count("misuse_"+map[verdict]string{wellFormed: "wellformed(not_judged)", opaque: "opaque_position(not_judged)", malformed: "malformed(judged)", mismatch: "type_mismatch(judged)"}[v], 1)
		c.Count("misuse_result_"+strings.SplitN(result, ":", 2)[0], 1)
		if v == opaque && result == "page" {
			c.Count("opaque_position_token_answered_with_a_page(not_judged)", 1)
		}
		c.Case(strings.Join([]string{"misuse", m.api, cfg.String(), class, result}, "|"), true)

		payload, _ := unseal(cfg, m.token)
		witness := map[string]any{
			"config": cfg.String(), "api": m.api, "readchanges_type": m.reqType, "token": m.token, "decoded_payload": payload, "token_origin": m.origin,
			"token_class": class, "response_items": o.items, "response_token": o.next, "panic": o.panic,
			"setup": "store with 7 models and 24 single-tuple writes, 6 stores on the server; Read/ReadChanges page_size 3, ListStores/ReadAuthorizationModels page_size 2",
		}
		apiL := strings.ToLower(m.api)
		if o.panic != "" {
			id := fmt.Sprintf("C14-%s-%s-%s-panic", cfg.Backend, apiL, class)
			if cfg.Backend == srvkit.Memory && m.api == apiRead && class == "negative-offset" {
				id = "C14-memory-negative-offset-panic"
			}
			c.Violation(id, id+"/"+cfg.String(),
				fmt.Sprintf("%s on %s panicked on continuation token %q (payload %q, class %s, %s): %s", m.api, cfg, m.token, payload, class, m.origin, firstLine(o.panic)), witness)
			continue
		}
		if o.err != nil {
			continue
		}
		switch v {
		case malformed:
			id := fmt.Sprintf("C14-%s-%s-%s-accepted", cfg.Backend, apiL, class)
			c.Violation(id, id+"/"+cfg.String(),
				fmt.Sprintf("%s on %s answered the malformed continuation token %q (payload %q, class %s, %s) with a page of %d items instead of an error",
					m.api, cfg, m.token, payload, class, m.origin, len(o.items)), witness)
		case mismatch:
			c.Violation("", "type-binding/"+cfg.String(),
				fmt.Sprintf("ReadChanges on %s accepted a token bound to another type filter (request type=%q, token payload %q; %s) and returned a page of %d changes",
					cfg, m.reqType, payload, m.origin, len(o.items)), witness)
		}
	}
}
