package c14

import (
	"fmt"
	"math/rand"
	"sort"
	"strings"

	openfgav1 "github.com/openfga/api/proto/openfga/v1"

	"github.com/openfga/openfga/verifharness/checks/srvkit"
	"github.com/openfga/openfga/verifharness/vk"
)

type tup struct{ obj, rel, user string }

func (t tup) String() string { return t.obj + "#" + t.rel + "@" + t.user }
func (t tup) typ() string    { return t.obj[:strings.IndexByte(t.obj, ':')] }

// universe enumerates every tuple valid for modelDSL over a small id space (few keys on purpose:
// filters then match many tuples and page boundaries fall inside filtered sets).
func universe() []tup {
	var u []tup
	for d := 0; d < 8; d++ {
		for us := 0; us < 16; us++ {
			u = append(u, tup{fmt.Sprintf("document:%d", d), "viewer", fmt.Sprintf("user:%d", us)})
			u = append(u, tup{fmt.Sprintf("document:%d", d), "editor", fmt.Sprintf("user:%d", us)})
		}
		for g := 0; g < 5; g++ {
			u = append(u, tup{fmt.Sprintf("document:%d", d), "viewer", fmt.Sprintf("group:%d#member", g)})
		}
	}
	for f := 0; f < 5; f++ {
		for us := 0; us < 16; us++ {
			u = append(u, tup{fmt.Sprintf("documents:%d", f), "viewer", fmt.Sprintf("user:%d", us)})
			u = append(u, tup{fmt.Sprintf("documents:%d", f), "owner", fmt.Sprintf("user:%d", us)})
		}
	}
	for g := 0; g < 5; g++ {
		for us := 0; us < 16; us++ {
			u = append(u, tup{fmt.Sprintf("group:%d", g), "member", fmt.Sprintf("user:%d", us)})
		}
	}
	return u // 8*37 + 5*32 + 5*16 = 536
}

// request is one Write RPC issued by the driver.
type request struct {
	writes  []tup
	deletes []tup
}

func (rq request) changes() []string {
	var out []string
	for _, d := range rq.deletes {
		out = append(out, "D "+d.String())
	}
	for _, w := range rq.writes {
		out = append(out, "W "+w.String())
	}
	return out
}

func writeReq(store string, rq request) *openfgav1.WriteRequest {
	req := &openfgav1.WriteRequest{StoreId: store}
	if len(rq.writes) > 0 {
		req.Writes = &openfgav1.WriteRequestWrites{}
		for _, t := range rq.writes {
			req.Writes.TupleKeys = append(req.Writes.TupleKeys, &openfgav1.TupleKey{Object: t.obj, Relation: t.rel, User: t.user})
		}
	}
	if len(rq.deletes) > 0 {
		req.Deletes = &openfgav1.WriteRequestDeletes{}
		for _, t := range rq.deletes {
			req.Deletes.TupleKeys = append(req.Deletes.TupleKeys, &openfgav1.TupleKeyWithoutCondition{Object: t.obj, Relation: t.rel, User: t.user})
		}
	}
	return req
}

func (e *env) write(store string, rq request) error {
	ulidMu.Lock()
	defer ulidMu.Unlock()
	_, err := e.inst.Server.Write(e.ctx, writeReq(store, rq))
	return err
}

// tupleData is the driver's record of a loaded store.
type tupleData struct {
	store    string
	requests []request
	present  []tup // tuples currently in the store (reference state), in insertion order
}

func (d *tupleData) apply(rq request) {
	for _, del := range rq.deletes {
		for i, p := range d.present {
			if p == del {
				d.present = append(d.present[:i:i], d.present[i+1:]...)
				break
			}
		}
	}
	d.present = append(d.present, rq.writes...)
	d.requests = append(d.requests, rq)
}

// loadTuples issues n tuple writes (+ about n/8 deletes) as a seed-determined sequence of requests.
func loadTuples(e *env, r *rand.Rand, n int) *tupleData {
	d := &tupleData{store: e.mustStore("tuples")}
	if d.store == "" || e.mustModel(d.store, modelDSL) == "" {
		return nil
	}
	u := universe()
	r.Shuffle(len(u), func(i, j int) { u[i], u[j] = u[j], u[i] })
	if n > len(u) {
		n = len(u)
	}
	todo := u[:n]
	for len(todo) > 0 {
		var rq request
		g := 1
		if r.Intn(5) == 0 {
			g = 2 + r.Intn(4)
		}
		if g > len(todo) {
			g = len(todo)
		}
		rq.writes = append(rq.writes, todo[:g]...)
		todo = todo[g:]
		if len(d.present) > 0 && r.Intn(8) == 0 {
			del := d.present[r.Intn(len(d.present))]
			if r.Intn(2) == 0 {
				rq.deletes = append(rq.deletes, del) // delete and writes in the same request
			} else {
				one := request{deletes: []tup{del}}
				if err := e.write(d.store, one); err != nil {
					e.c.HarnessError("%s Write(delete) failed: %v", e.cfg, err)
					return nil
				}
				d.apply(one)
			}
		}
		if err := e.write(d.store, rq); err != nil {
			e.c.HarnessError("%s Write failed: %v", e.cfg, err)
			return nil
		}
		d.apply(rq)
	}
	return d
}

func (f filter) match(t tup) bool {
	if f.isZero() {
		return true
	}
	if strings.HasSuffix(f.obj, ":") {
		if t.typ()+":" != f.obj {
			return false
		}
	} else if f.obj != "" && t.obj != f.obj {
		return false
	}
	if f.rel != "" && t.rel != f.rel {
		return false
	}
	if f.user != "" && t.user != f.user {
		return false
	}
	return true
}

// readFilters picks one filter per shape from the data (seed-determined).
func readFilters(r *rand.Rand, d *tupleData) []filter {
	u := universe()
	pick := func() tup {
		if len(d.present) > 0 {
			return d.present[r.Intn(len(d.present))]
		}
		return u[r.Intn(len(u))]
	}
	fs := []filter{{}}
	a := pick()
	fs = append(fs, filter{obj: a.typ() + ":", user: a.user})
	b := pick()
	fs = append(fs, filter{obj: b.obj})
	fs = append(fs, filter{obj: b.obj, rel: b.rel})
	cc := pick()
	fs = append(fs, filter{obj: cc.obj, user: cc.user})
	dd := pick()
	fs = append(fs, filter{obj: dd.typ() + ":", rel: dd.rel, user: dd.user})
	ee := pick()
	fs = append(fs, filter{obj: ee.obj, rel: ee.rel, user: ee.user})
	// a userset user and a key that is not in the store
	fs = append(fs, filter{obj: "document:", user: fmt.Sprintf("group:%d#member", r.Intn(5))})
	fs = append(fs, filter{obj: "document:99", rel: "viewer", user: "user:99"})
	// the most populated object type with the most frequent user: large filtered sets
	return fs
}

func tupleCase(c *vk.Ctx, cfg srvkit.Config, n int) {
	e := open(c, cfg)
	if e == nil {
		return
	}
	defer e.inst.Close()
	label := fmt.Sprintf("tuples/%s/n=%d", cfg, n)
	r := c.Rand(label)
	d := loadTuples(e, r, n)
	if d == nil {
		return
	}
	// a second store on the same server with other content must never leak into the walks
	if other := e.mustStore("other"); other != "" && e.mustModel(other, modelDSL) != "" {
		_ = e.write(other, request{writes: []tup{{"document:77", "viewer", "user:77"}, {"documents:77", "owner", "user:77"}}})
	}
	c.Count("tuples_written", n)
	c.Count("write_requests", len(d.requests))

	// ---- Read
	for _, f := range readFilters(r, d) {
		f := f
		var exp []string
		for _, t := range d.present {
			if f.match(t) {
				exp = append(exp, t.String())
			}
		}
		for _, size := range pageSizes(c, len(exp)) {
			doWalk(c, walkSpec{
				api: apiRead, cfg: cfg, n: n, filter: f.String(), fshape: f.shape(), size: size, expected: exp, dataKey: label,
				fetch: func(tok string, sz int) outcome { return e.read(d.store, f, tok, sz) },
			})
		}
	}

	// ---- ReadChanges
	types := []string{"", "document", "documents", "group", "nosuchtype"}
	resume := map[string]string{} // type filter -> token of the terminal page of one complete walk
	groupsFor := func(reqs []request, typ string) ([][]string, []string) {
		var groups [][]string
		var flat []string
		for _, rq := range reqs {
			var g []string
			for _, ch := range rq.changes() {
				if typ == "" || strings.HasPrefix(ch[2:], typ+":") {
					g = append(g, ch)
				}
			}
			if len(g) > 0 {
				groups = append(groups, g)
				flat = append(flat, g...)
			}
		}
		return groups, flat
	}
	for _, typ := range types {
		typ := typ
		groups, flat := groupsFor(d.requests, typ)
		if groups == nil {
			groups = [][]string{}
		}
		shape := "type"
		if typ == "" {
			shape = "none"
		} else if typ == "nosuchtype" {
			shape = "unknown-type"
		}
		for _, size := range pageSizes(c, len(flat)) {
			res := doWalk(c, walkSpec{
				api: apiReadChanges, cfg: cfg, n: n, filter: "type=" + typ, fshape: shape, size: size, expected: flat, groups: groups, dataKey: label,
				fetch: func(tok string, sz int) outcome { return e.readChanges(d.store, typ, tok, sz) },
			})
			if res.ok {
				resume[typ] = res.lastToken
			}
		}
	}
	// resume: new changes committed after a finished walk are delivered exactly once from its last token
	before := len(d.requests)
	extra := []request{
		{writes: []tup{{"document:90", "viewer", "user:90"}}},
		{writes: []tup{{"documents:90", "owner", "user:90"}, {"group:4", "member", "user:90"}}},
		{deletes: []tup{{"document:90", "viewer", "user:90"}}},
	}
	for _, rq := range extra {
		if err := e.write(d.store, rq); err != nil {
			c.HarnessError("%s Write(resume) failed: %v", cfg, err)
			return
		}
		d.apply(rq)
	}
	for _, typ := range types {
		typ := typ
		tok, ok := resume[typ]
		if !ok {
			continue
		}
		groups, flat := groupsFor(d.requests[before:], typ)
		if tok == "" {
			// the finished walk saw an empty log and got no token: resuming means starting over
			groups, flat = groupsFor(d.requests, typ)
		}
		if groups == nil {
			groups = [][]string{}
		}
		doWalk(c, walkSpec{
			api: apiReadChanges, cfg: cfg, n: n, filter: "resume type=" + typ, fshape: "resume", size: 2, expected: flat, groups: groups, dataKey: label,
			startToken: tok,
			fetch:      func(t string, sz int) outcome { return e.readChanges(d.store, typ, t, sz) },
		})
		c.Count("resume_walks", 1)
	}
}

func modelCase(c *vk.Ctx, cfg srvkit.Config, n int) {
	e := open(c, cfg)
	if e == nil {
		return
	}
	defer e.inst.Close()
	label := fmt.Sprintf("models/%s/n=%d", cfg, n)
	if other := e.mustStore("other"); other != "" {
		e.mustModel(other, "model\n  schema 1.1\ntype user\ntype foreign\n")
	}
	store := e.mustStore("models")
	if store == "" {
		return
	}
	var written []string // id|fingerprint in write order
	for i := 0; i < n; i++ {
		id := e.mustModel(store, fmt.Sprintf("model\n  schema 1.1\ntype user\ntype t%d\n", i))
		if id == "" {
			return
		}
		written = append(written, fmt.Sprintf("%s|user,t%d", id, i))
	}
	c.Count("models_written", n)
	// documented order: descending id (newest first)
	exp := append([]string(nil), written...)
	sort.Sort(sort.Reverse(sort.StringSlice(exp)))
	for i := range exp {
		if exp[i] != written[len(written)-1-i] {
			c.Count("model_id_order_differs_from_write_order(clock)", 1)
			break
		}
	}
	for _, size := range pageSizes(c, n) {
		doWalk(c, walkSpec{
			api: apiReadModels, cfg: cfg, n: n, filter: "<store>", fshape: "store", size: size, expected: exp, ordered: true, dataKey: label,
			fetch: func(tok string, sz int) outcome { return e.readModels(store, tok, sz) },
		})
	}
}

func storeCase(c *vk.Ctx, cfg srvkit.Config, n int) {
	e := open(c, cfg)
	if e == nil {
		return
	}
	defer e.inst.Close()
	label := fmt.Sprintf("stores/%s/n=%d", cfg, n)
	r := c.Rand(label)
	names := []string{"alpha", "beta", "gamma"}
	type st struct{ id, name string }
	var live []st
	for i := 0; i < n; i++ {
		name := names[r.Intn(len(names))]
		if r.Intn(4) == 0 {
			name = names[0] // skew: one name is frequent
		}
		id := e.mustStore(name)
		if id == "" {
			return
		}
		live = append(live, st{id, name})
		// sometimes delete a store created earlier: it must disappear from every listing
		if len(live) > 1 && r.Intn(6) == 0 {
			k := r.Intn(len(live))
			if _, err := e.inst.Server.DeleteStore(e.ctx, &openfgav1.DeleteStoreRequest{StoreId: live[k].id}); err != nil {
				c.HarnessError("%s DeleteStore: %v", cfg, err)
				return
			}
			live = append(live[:k:k], live[k+1:]...)
			c.Count("stores_deleted", 1)
		}
	}
	c.Count("stores_created", n)
	for _, name := range []string{"", "alpha", "beta", "gamma", "unused"} {
		name := name
		var exp []string
		for _, s := range live {
			if name == "" || s.name == name {
				exp = append(exp, s.id+"|"+s.name)
			}
		}
		sort.Strings(exp) // by id ascending (ids are fixed-width ULIDs; the id is the prefix of the item string)
		shape := "name"
		if name == "" {
			shape = "none"
		} else if name == "unused" {
			shape = "unused-name"
		}
		for _, size := range pageSizes(c, len(exp)) {
			doWalk(c, walkSpec{
				api: apiListStores, cfg: cfg, n: n, filter: "name=" + name, fshape: shape, size: size, expected: exp, ordered: true, dataKey: label,
				fetch: func(tok string, sz int) outcome { return e.listStores(name, tok, sz) },
			})
		}
	}
}
