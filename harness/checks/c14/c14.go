// Package c14 decides property C14 "Paginated reads return every item exactly once" by driving a
// real in-process openfga server (memory and sqlite backends, plain and AES-GCM-encrypted tokens)
// and checking every recorded page walk with an exactly-once / documented-order history checker
// that knows nothing about how the server computes pages.
package c14

import (
	"context"
	"fmt"
	"runtime/debug"
	"sort"
	"strings"
	"sync"

	openfgav1 "github.com/openfga/api/proto/openfga/v1"
	parser "github.com/openfga/language/pkg/go/transformer"
	"google.golang.org/protobuf/types/known/wrapperspb"

	"github.com/openfga/openfga/verifharness/checks/srvkit"
	"github.com/openfga/openfga/verifharness/vk"
)

func init() { vk.Register("C14", "exploration", run) }

const defaultPageSize = 50 // storage.DefaultPageSize, documented in pkg/storage/storage.go
const maxPageSize = 100    // proto validation [1,100]; ReadChanges: server default readChangesMaxPageSize

const modelDSL = `model
  schema 1.1
type user
type group
  relations
    define member: [user]
type document
  relations
    define viewer: [user, group#member]
    define editor: [user]
type documents
  relations
    define viewer: [user]
    define owner: [user]
`

var configs = []srvkit.Config{
	{Backend: srvkit.Memory},
	{Backend: srvkit.Sqlite},
	{Backend: srvkit.Memory, Encrypted: true},
	{Backend: srvkit.Sqlite, Encrypted: true},
}

type job struct {
	name string
	fn   func()
}

func run(c *vk.Ctx) {
	c.SetRule("Cases: for every backend config (memory, sqlite, each with plain base64 and AES-GCM tokens) and every data-set size n " +
		"in a tier-fixed list (0,1,2,3,7, page boundaries 49/50/51/99/100/101, seed-dependent others up to ~130; thorough 0..12, boundaries up to 301 and random others), a fresh server is loaded by the driver with " +
		"(a) n tuple writes + ~n/8 deletes issued as single- and multi-tuple Write requests over 3 object types, (b) n authorization " +
		"models, (c) n stores with 3 names and some deleted; then every API is walked from the first page to the end with page sizes " +
		"{1,2,3,7,m-1,m,m+1,100,unspecified} (and every size 1..m+1 for m<=12, thorough m<=101) for every filter shape (Read: none, type+user, object, " +
		"object+relation, object+user, type+relation+user, full key present/absent; ReadChanges: none, each type, unknown type; ListStores: " +
		"none, each name, unused name). One evaluation = one complete walk or one token-misuse call. Signature = api|config|filter " +
		"shape|bucket(m)|page-size class|pages bucket (walks) or api|config|token class|outcome (misuse). A walk is non-trivial when the " +
		"expected result has >=1 item; a misuse call is always non-trivial.")
	c.Assume("The driver's own record of acknowledged writes (request order, per-request op sets) is the ground truth for expected items; " +
		"writes are issued sequentially so commit order = request order.")
	c.Assume("Filter semantics used by the reference: exact match on object type, object id, relation and full user string; only filters on which both backends are documented to agree are generated (no type-only user filters).")
	c.Assume("Well-formedness of a token is defined by a reference grammar written from the token formats (memory: base64url(decimal offset[|type]); " +
		"ReadChanges memory: base64url(ULID|type); SQL serializer: base64url(JSON{ulid,ObjectType}); encrypted: AES-GCM envelope). Only tokens outside " +
		"the envelope/serializer grammar (undecodable, unparsable, empty/negative/non-numeric position) are judged; opaque position strings that parse are only counted.")
	c.Assume("postgres/mysql backends are not exercised (no Docker); the wall clock does not step backwards during a run (ULID order = request order).")

	// the only scenario with concurrent writers runs alone, before the pool (see busyNeighboursCase)
	for _, cfg := range []srvkit.Config{{Backend: srvkit.Memory}, {Backend: srvkit.Sqlite}} {
		for round := 0; round < c.Pick(3, 10); round++ {
			busyNeighboursCase(c, cfg, round)
		}
	}
	c.Logf("busy-neighbour rounds done")
	var jobs []job
	for _, cfg := range configs {
		cfg := cfg
		for _, n := range sizesFor(c, cfg) {
			n := n
			jobs = append(jobs,
				job{fmt.Sprintf("tuples/%s/n=%d", cfg, n), func() { tupleCase(c, cfg, n) }},
				job{fmt.Sprintf("models/%s/n=%d", cfg, n), func() { modelCase(c, cfg, n) }},
				job{fmt.Sprintf("stores/%s/n=%d", cfg, n), func() { storeCase(c, cfg, n) }},
			)
		}
		jobs = append(jobs, job{fmt.Sprintf("misuse/%s", cfg), func() { misuseCase(c, cfg) }})
	}
	workers := 8
	ch := make(chan job)
	var wg sync.WaitGroup
	for w := 0; w < workers; w++ {
		wg.Add(1)
		go func() {
			defer wg.Done()
			for j := range ch {
				func() {
					defer func() {
						if r := recover(); r != nil {
							c.HarnessError("job %s panicked in the harness: %v\n%s", j.name, r, debug.Stack())
						}
					}()
					j.fn()
				}()
			}
		}()
	}
	for _, j := range jobs {
		ch <- j
	}
	close(ch)
	wg.Wait()
	c.Extra("jobs", len(jobs))
	outcomeMu.Lock()
	c.Extra("token_misuse_outcomes(backend|api|token_class|outcome->calls)", outcomeTable)
	outcomeMu.Unlock()
	c.Logf("done: %d jobs, walks=%d misuse_calls=%d", len(jobs), c.Counter("walks"), c.Counter("misuse_calls"))
}

// sizesFor lists the data-set sizes n of a config (constants per tier plus seed-dependent ones).
func sizesFor(c *vk.Ctx, cfg srvkit.Config) []int {
	r := c.Rand("sizes/" + cfg.String())
	var ns []int
	if c.Quick() {
		ns = []int{0, 1, 2, 3, 7, 49, 50, 51, 99, 100, 101}
		if cfg.Encrypted {
			ns = []int{0, 1, 2, 50, 51, 101}
		}
		ns = append(ns, 4+r.Intn(44), 52+r.Intn(47), 102+r.Intn(30))
	} else {
		ns = []int{0, 1, 2, 3, 4, 5, 6, 7, 8, 9, 10, 11, 12, 49, 50, 51, 99, 100, 101, 149, 150, 151, 199, 200, 201, 250, 299, 300, 301}
		if cfg.Encrypted {
			ns = []int{0, 1, 2, 3, 50, 51, 100, 101, 200, 201}
		}
		for i := 0; i < 8; i++ {
			ns = append(ns, 13+r.Intn(290))
		}
	}
	sort.Ints(ns)
	out := ns[:0]
	for i, n := range ns {
		if i == 0 || n != ns[i-1] {
			out = append(out, n)
		}
	}
	return out
}

// ---------------------------------------------------------------------------------------------
// calling the server

// ulidMu serialises every ULID-generating call (CreateStore, WriteAuthorizationModel, Write) of all
// workers: openfga draws ULIDs from the process-global monotonic entropy source with a timestamp
// captured earlier, so parallel in-process servers would make ULIDs of sequential same-millisecond
// writes to one store non-monotonic - an artefact of running many servers in one process, not of the
// sequential histories this property quantifies over.
var ulidMu sync.Mutex

type env struct {
	c    *vk.Ctx
	cfg  srvkit.Config
	inst *srvkit.Instance
	ctx  context.Context
}

func open(c *vk.Ctx, cfg srvkit.Config) *env {
	inst, err := srvkit.Open(cfg)
	if err != nil {
		c.HarnessError("cannot open %s server: %v", cfg, err)
		return nil
	}
	return &env{c: c, cfg: cfg, inst: inst, ctx: context.Background()}
}

// outcome of one guarded call.
type outcome struct {
	items []string
	next  string
	err   error
	panic string // non-empty: the call panicked (value + stack)
}

func guard(fn func() ([]string, string, error)) (o outcome) {
	defer func() {
		if r := recover(); r != nil {
			o = outcome{panic: fmt.Sprintf("%v\n%s", r, debug.Stack())}
		}
	}()
	items, next, err := fn()
	return outcome{items: items, next: next, err: err}
}

func psize(size int) *wrapperspb.Int32Value {
	if size <= 0 {
		return nil
	}
	return wrapperspb.Int32(int32(size))
}

type filter struct{ obj, rel, user string } // zero value = no tuple_key

func (f filter) isZero() bool { return f == filter{} }
func (f filter) String() string {
	if f.isZero() {
		return "<none>"
	}
	return f.obj + "#" + f.rel + "@" + f.user
}

// shape names which parts of the filter are set.
func (f filter) shape() string {
	if f.isZero() {
		return "none"
	}
	s := "type"
	if !strings.HasSuffix(f.obj, ":") {
		s = "object"
	}
	if f.rel != "" {
		s += "+relation"
	}
	if f.user != "" {
		if strings.Contains(f.user, "#") {
			s += "+userset"
		} else {
			s += "+user"
		}
	}
	return s
}

func tupleString(k *openfgav1.TupleKey) string {
	return k.GetObject() + "#" + k.GetRelation() + "@" + k.GetUser()
}

func (e *env) read(store string, f filter, token string, size int) outcome {
	return guard(func() ([]string, string, error) {
		req := &openfgav1.ReadRequest{StoreId: store, PageSize: psize(size), ContinuationToken: token}
		if !f.isZero() {
			req.TupleKey = &openfgav1.ReadRequestTupleKey{Object: f.obj, Relation: f.rel, User: f.user}
		}
		resp, err := e.inst.Server.Read(e.ctx, req)
		if err != nil {
			return nil, "", err
		}
		var items []string
		for _, t := range resp.GetTuples() {
			items = append(items, tupleString(t.GetKey()))
		}
		return items, resp.GetContinuationToken(), nil
	})
}

func changeString(ch *openfgav1.TupleChange) string {
	op := "W "
	if ch.GetOperation() == openfgav1.TupleOperation_TUPLE_OPERATION_DELETE {
		op = "D "
	}
	return op + tupleString(ch.GetTupleKey())
}

func (e *env) readChanges(store, typ, token string, size int) outcome {
	return guard(func() ([]string, string, error) {
		resp, err := e.inst.Server.ReadChanges(e.ctx, &openfgav1.ReadChangesRequest{
			StoreId: store, Type: typ, PageSize: psize(size), ContinuationToken: token,
		})
		if err != nil {
			return nil, "", err
		}
		var items []string
		for _, ch := range resp.GetChanges() {
			items = append(items, changeString(ch))
		}
		return items, resp.GetContinuationToken(), nil
	})
}

func (e *env) listStores(name, token string, size int) outcome {
	return guard(func() ([]string, string, error) {
		resp, err := e.inst.Server.ListStores(e.ctx, &openfgav1.ListStoresRequest{
			Name: name, PageSize: psize(size), ContinuationToken: token,
		})
		if err != nil {
			return nil, "", err
		}
		var items []string
		for _, s := range resp.GetStores() {
			items = append(items, s.GetId()+"|"+s.GetName())
		}
		return items, resp.GetContinuationToken(), nil
	})
}

func (e *env) readModels(store, token string, size int) outcome {
	return guard(func() ([]string, string, error) {
		resp, err := e.inst.Server.ReadAuthorizationModels(e.ctx, &openfgav1.ReadAuthorizationModelsRequest{
			StoreId: store, PageSize: psize(size), ContinuationToken: token,
		})
		if err != nil {
			return nil, "", err
		}
		var items []string
		for _, m := range resp.GetAuthorizationModels() {
			items = append(items, m.GetId()+"|"+modelFingerprint(m))
		}
		return items, resp.GetContinuationToken(), nil
	})
}

// modelFingerprint identifies the content of a model (the driver makes every model's type list unique).
func modelFingerprint(m *openfgav1.AuthorizationModel) string {
	var names []string
	for _, td := range m.GetTypeDefinitions() {
		names = append(names, td.GetType())
	}
	return strings.Join(names, ",")
}

func (e *env) mustStore(name string) string {
	ulidMu.Lock()
	defer ulidMu.Unlock()
	resp, err := e.inst.Server.CreateStore(e.ctx, &openfgav1.CreateStoreRequest{Name: name})
	if err != nil {
		e.c.HarnessError("%s CreateStore: %v", e.cfg, err)
		return ""
	}
	return resp.GetId()
}

func (e *env) mustModel(store, dsl string) string {
	m := parser.MustTransformDSLToProto(dsl)
	ulidMu.Lock()
	defer ulidMu.Unlock()
	resp, err := e.inst.Server.WriteAuthorizationModel(e.ctx, &openfgav1.WriteAuthorizationModelRequest{
		StoreId: store, SchemaVersion: m.GetSchemaVersion(), TypeDefinitions: m.GetTypeDefinitions(), Conditions: m.GetConditions(),
	})
	if err != nil {
		e.c.HarnessError("%s WriteAuthorizationModel: %v", e.cfg, err)
		return ""
	}
	return resp.GetAuthorizationModelId()
}

// ---------------------------------------------------------------------------------------------
// walks and the history checker

const (
	apiRead        = "Read"
	apiReadChanges = "ReadChanges"
	apiListStores  = "ListStores"
	apiReadModels  = "ReadAuthorizationModels"
)

type pageRec struct {
	Sent  string   `json:"token_sent"`
	Items []string `json:"items"`
	Next  string   `json:"token_returned"`
	Err   string   `json:"error,omitempty"`
	Panic string   `json:"panic,omitempty"`
}

type walkSpec struct {
	api      string
	cfg      srvkit.Config
	n        int    // data-set size parameter of the case
	filter   string // human-readable filter
	fshape   string
	size     int // 0 = unspecified
	expected []string
	// groups: for ReadChanges, the expected items partitioned by Write request (order across groups is
	// commit order and is judged, order inside one request is not). nil for other APIs.
	groups [][]string
	// ordered: the concatenation must equal expected exactly (models newest first, stores by id).
	ordered bool
	fetch   func(token string, size int) outcome
	dataKey string // PRNG label that regenerates the data set
	// startToken: the walk starts from this token instead of the first page (ReadChanges resume).
	startToken string
	// findingID: identifies the specific defect when this scenario is known to expose one.
	findingID string
}

type walkResult struct {
	pages     []pageRec
	lastToken string // last non-empty token seen (ReadChanges: the token to resume from)
	ok        bool
}

func effSize(size int) int {
	if size <= 0 {
		return defaultPageSize
	}
	return size
}

func bucket(m int) string {
	switch {
	case m == 0:
		return "0"
	case m == 1:
		return "1"
	case m <= 3:
		return "2-3"
	case m < 50:
		return "4-49"
	case m == 50:
		return "50"
	case m < 100:
		return "51-99"
	case m == 100:
		return "100"
	case m <= 200:
		return "101-200"
	}
	return ">200"
}

func sizeClass(size, m int) string {
	switch {
	case size <= 0:
		if m == defaultPageSize {
			return "default=m"
		} else if m < defaultPageSize {
			return "default>m"
		} else if m%defaultPageSize == 0 {
			return "default|m"
		}
		return "default<m"
	case size == m:
		return "m"
	case size == m-1:
		return "m-1"
	case size == m+1:
		return "m+1"
	case size == 1:
		return "1"
	case size == maxPageSize:
		if size > m {
			return "max>m"
		}
		return "max<m"
	case size > m:
		return ">m"
	case m%size == 0:
		return "divides"
	}
	return "small"
}

func pagesBucket(p int) string {
	switch {
	case p <= 3:
		return fmt.Sprint(p)
	case p <= 10:
		return "4-10"
	case p <= 50:
		return "11-50"
	}
	return ">50"
}

// doWalk follows continuation tokens from the first page to the end and judges the recorded history.
func doWalk(c *vk.Ctx, w walkSpec) walkResult {
	m := len(w.expected)
	eff := effSize(w.size)
	hardMax := m + 3 // every non-final page must deliver at least one item, plus a possible empty final page
	var res walkResult
	token := w.startToken
	terminated := false
	for len(res.pages) < hardMax {
		o := w.fetch(token, w.size)
		rec := pageRec{Sent: token, Items: o.items, Next: o.next}
		if o.err != nil {
			rec.Err = o.err.Error()
		}
		rec.Panic = o.panic
		res.pages = append(res.pages, rec)
		if o.panic != "" || o.err != nil {
			break
		}
		if o.next != "" {
			res.lastToken = o.next
		}
		if w.api == apiReadChanges {
			// documented: the API always hands back a token to continue from later; the walk is over
			// when a page carries no changes.
			if len(o.items) == 0 {
				terminated = true
				break
			}
		} else if o.next == "" {
			terminated = true
			break
		}
		token = o.next
	}
	c.Count("walks", 1)
	c.Count("walks_"+w.api, 1)
	c.Count("pages_fetched", len(res.pages))
	c.Seen("page_sizes", fmt.Sprint(w.size))
	c.Seen("expected_counts", fmt.Sprint(m))
	c.Case(strings.Join([]string{w.api, w.cfg.String(), w.fshape, bucket(m), sizeClass(w.size, m), pagesBucket(len(res.pages))}, "|"), m >= 1)

	fail := func(category, what string) {
		res.ok = false
		key := strings.Join([]string{category, w.api, w.cfg.String(), w.findingID}, "/")
		fid := ""
		if category == "order" || category == "exactly-once" {
			fid = w.findingID
		}
		c.Violation(fid, key, fmt.Sprintf("%s %s n=%d filter=%s page_size=%d expected_items=%d: %s", w.api, w.cfg, w.n, w.filter, w.size, m, what),
			map[string]any{
				"api": w.api, "config": w.cfg.String(), "n": w.n, "data_prng_label": w.dataKey, "filter": w.filter, "page_size": w.size,
				"expected": w.expected, "expected_groups": w.groups, "pages": res.pages, "category": category,
			})
	}
	res.ok = true
	last := res.pages[len(res.pages)-1]
	if last.Panic != "" {
		fail("walk-panic", "the server panicked on a token it issued itself: "+firstLine(last.Panic))
		return res
	}
	if last.Err != "" {
		fail("walk-error", fmt.Sprintf("page %d failed on a token the server issued itself: %s", len(res.pages), last.Err))
		return res
	}
	if !terminated {
		fail("no-termination", fmt.Sprintf("no final page after %d pages for %d expected items", len(res.pages), m))
		return res
	}
	var got []string
	for i, p := range res.pages {
		if len(p.Items) > eff {
			fail("page-too-large", fmt.Sprintf("page %d has %d items, page size is %d", i+1, len(p.Items), eff))
			return res
		}
		got = append(got, p.Items...)
	}
	// exactly once
	want := map[string]int{}
	for _, x := range w.expected {
		want[x]++
	}
	seen := map[string]int{}
	for _, x := range got {
		seen[x]++
	}
	var missing, dup, extra []string
	for x, k := range want {
		if seen[x] < k {
			missing = append(missing, x)
		}
	}
	for x, k := range seen {
		if want[x] == 0 {
			extra = append(extra, x)
		} else if k > want[x] {
			dup = append(dup, x)
		}
	}
	sort.Strings(missing)
	sort.Strings(dup)
	sort.Strings(extra)
	if len(missing)+len(dup)+len(extra) > 0 {
		fail("exactly-once", fmt.Sprintf("missing=%v duplicated=%v unexpected=%v", clip(missing), clip(dup), clip(extra)))
		return res
	}
	// documented order
	if w.ordered {
		for i := range got {
			if got[i] != w.expected[i] {
				fail("order", fmt.Sprintf("position %d: got %s, documented order requires %s", i, got[i], w.expected[i]))
				return res
			}
		}
	}
	if w.groups != nil {
		pos := 0
		for gi, g := range w.groups {
			a := append([]string(nil), got[pos:pos+len(g)]...)
			b := append([]string(nil), g...)
			sort.Strings(a)
			sort.Strings(b)
			for i := range a {
				if a[i] != b[i] {
					fail("order", fmt.Sprintf("changes at positions %d..%d are %v but write request #%d committed %v (commit order violated)", pos, pos+len(g)-1, got[pos:pos+len(g)], gi, g))
					return res
				}
			}
			pos += len(g)
		}
	}
	// ReadChanges: the terminal empty page must hand back the token it was given (resumability).
	if w.api == apiReadChanges {
		if last.Next != last.Sent {
			fail("changes-terminal-token", fmt.Sprintf("terminal empty page returned token %q for request token %q", last.Next, last.Sent))
			return res
		}
	}
	// observations (not judged: the docs promise neither full pages nor a minimal page count)
	minPages := (m + eff - 1) / eff
	if w.api == apiReadChanges {
		minPages++
	} else if minPages == 0 {
		minPages = 1
	}
	if len(res.pages) > minPages {
		c.Count("walks_with_more_pages_than_minimum(not_judged)", 1)
	}
	if len(res.pages) > 1 {
		c.Count("multi_page_walks", 1)
	}
	if w.n == 3 && w.size == 2 && w.fshape == "none" || w.n == 3 && w.size == 2 && w.api == apiReadModels {
		c.Sample(map[string]any{"api": w.api, "config": w.cfg.String(), "n": w.n, "filter": w.filter, "page_size": w.size, "expected": w.expected, "pages": res.pages, "verdict": "exactly once, documented order"})
	}
	if m > 0 && m%eff == 0 {
		c.Count("walks_exact_multiple_boundary", 1)
	}
	return res
}

func firstLine(s string) string {
	if i := strings.IndexByte(s, '\n'); i >= 0 {
		return s[:i]
	}
	return s
}

func clip(s []string) []string {
	if len(s) > 8 {
		return append(append([]string(nil), s[:8]...), fmt.Sprintf("…(+%d)", len(s)-8))
	}
	return s
}

// pageSizes lists the page sizes walked for an expected count m (0 = unspecified).
func pageSizes(c *vk.Ctx, m int) []int {
	set := map[int]bool{}
	add := func(s int) {
		if s >= 1 && s <= maxPageSize {
			set[s] = true
		}
	}
	for _, s := range []int{1, 2, 3, 7, m - 1, m, m + 1, maxPageSize} {
		add(s)
	}
	if m <= c.Pick(12, 101) {
		for s := 1; s <= m+1; s++ {
			add(s)
		}
	}
	if !c.Quick() {
		add(m / 2)
		add(m/2 + 1)
		add(m / 3)
		add(50)
	}
	out := []int{0}
	for s := range set {
		out = append(out, s)
	}
	sort.Ints(out)
	return out
}
