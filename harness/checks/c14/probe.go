package c14

import (
	"fmt"
	"sync"
	"sync/atomic"

	"github.com/openfga/openfga/verifharness/checks/srvkit"
	"github.com/openfga/openfga/verifharness/vk"
)

// busyNeighboursCase is the hostile shape of the "changes in commit order" clause: on ONE server a
// client writes single-tuple requests to store A strictly one after the other (each acknowledged
// before the next is sent, so A's commit order is known to the driver) while other clients hammer
// OTHER stores of the same server. Afterwards A's change log is walked and judged like any other
// walk: exactly once, in A's commit order. It runs alone (before the worker pool starts) because
// its un-serialised writers would disturb the ULID sequence of every other in-process server.
func busyNeighboursCase(c *vk.Ctx, cfg srvkit.Config, round int) {
	e := open(c, cfg)
	if e == nil {
		return
	}
	defer e.inst.Close()
	a := e.mustStore("busy-a")
	if a == "" || e.mustModel(a, modelDSL) == "" {
		return
	}
	neighbours := 3
	var stop atomic.Bool
	var wg sync.WaitGroup
	var neighbourWrites atomic.Int64
	for w := 0; w < neighbours; w++ {
		st := e.mustStore(fmt.Sprintf("busy-%d", w))
		if st == "" || e.mustModel(st, modelDSL) == "" {
			return
		}
		wg.Add(1)
		go func(w int, st string) {
			defer wg.Done()
			for i := 0; !stop.Load(); i++ {
				if _, err := e.inst.Server.Write(e.ctx, writeReq(st, request{writes: []tup{{fmt.Sprintf("document:%d", i), "viewer", fmt.Sprintf("user:%d", w)}}})); err == nil {
					neighbourWrites.Add(1)
				}
			}
		}(w, st)
	}
	n := c.Pick(250, 600)
	var groups [][]string
	var flat []string
	for i := 0; i < n; i++ {
		t := tup{fmt.Sprintf("document:%d", i), "viewer", "user:a"}
		if _, err := e.inst.Server.Write(e.ctx, writeReq(a, request{writes: []tup{t}})); err != nil {
			c.Count("busy_neighbours_write_errors", 1)
			continue // not acknowledged: not part of the expected log (a failed write adds nothing)
		}
		groups = append(groups, []string{"W " + t.String()})
		flat = append(flat, "W "+t.String())
	}
	stop.Store(true)
	wg.Wait()
	c.Count("busy_neighbours_rounds", 1)
	c.Count("busy_neighbours_writes_to_other_stores", int(neighbourWrites.Load()))
	id := fmt.Sprintf("C14-%s-changes-order-with-busy-neighbour-stores", cfg.Backend)
	for _, size := range []int{100, 7} {
		doWalk(c, walkSpec{
			api: apiReadChanges, cfg: cfg, n: n, filter: "type= (sequential writer, 3 concurrent writers on other stores)", fshape: "busy-neighbours", size: size,
			expected: flat, groups: groups, dataKey: fmt.Sprintf("busy-neighbours/%s/%d (timing dependent)", cfg, round), findingID: id,
			fetch: func(tok string, sz int) outcome { return e.readChanges(a, "", tok, sz) },
		})
	}
}
