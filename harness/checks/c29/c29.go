// Package c29 checks property C29 "Tuple and user string encodings round-trip": the renderers and
// parsers of pkg/tuple are exercised on structurally generated valid values (round-trip identity is
// the oracle) and the validity predicates are compared, on raw strings, with an independent
// three-valued recogniser written from the doc comments (ref.go).
package c29

import (
	"fmt"
	"math/rand"
	"runtime/debug"
	"strings"

	openfgav1 "github.com/openfga/api/proto/openfga/v1"
	"google.golang.org/protobuf/proto"

	"github.com/openfga/openfga/pkg/tuple"
	"github.com/openfga/openfga/verifharness/vk"
)

func init() { vk.Register("C29", "exploration", run) }

type partV struct {
	name, val string
	v         verdict
	reason    string
}

type chk struct {
	c *vk.Ctx
}

// guard runs f and turns an escaped panic into a violation.
func (k *chk) guard(fn, input string, f func()) {
	defer func() {
		if r := recover(); r != nil {
			k.c.Violation("C29-panic-"+fn, "panic:"+fn+":"+classSig(input),
				fmt.Sprintf("%s panicked on %q: %v", fn, input, r),
				map[string]any{"func": fn, "input": input, "input_quoted": fmt.Sprintf("%q", input), "panic": fmt.Sprint(r), "stack": string(debug.Stack())})
		}
	}()
	f()
}

func (k *chk) bad(findingID, fn, input, what string, extra map[string]any) {
	w := map[string]any{"func": fn, "input": input, "input_quoted": fmt.Sprintf("%q", input)}
	for a, b := range extra {
		w[a] = b
	}
	k.c.Violation(findingID, findingID+":"+classSig(input), fmt.Sprintf("%s: %s (input %q)", fn, what, input), w)
}

var predDoc = map[string]string{
	"IsValidObject":    "IsValidObject: \"A valid object contains exactly one `:` and no `#` or spaces.\" + property: one type prefix, no control characters",
	"IsValidRelation":  "IsValidRelation: \"does not contain any `:`, `#`, `@`, or spaces\" + property: no control characters",
	"IsValidUser":      "IsValidUser: \"A valid user contains at most one `:`, at most one `#` and no spaces.\" + property: one type prefix, at most one relation, no control characters",
	"IsObjectRelation": "IsObjectRelation: \"returns true if the given string specifies a valid object and relation.\"",
	"IsTypedWildcard":  "IsTypedWildcard: \"A typed wildcard has the form 'type:*'.\"",
	"IsWildcard":       "IsWildcard: \"could be interpreted as a typed or untyped wildcard (e.g. '*' or 'type:*')\"",
}

// judge compares one predicate result with the reference verdict.
func (k *chk) judge(pred, s string, got bool, v verdict, reason string) {
	switch v {
	case silent:
		k.c.Count("pred_not_judged:"+pred, 1)
		if got {
			k.c.Count("pred_not_judged_accepted:"+pred, 1)
		}
		return
	case mustAccept:
		k.c.Count("pred_judged_accept:"+pred, 1)
		if !got {
			k.bad("C29-"+pred+"-rejects-"+reason, pred, s, "rejects a string of the documented form "+reason, map[string]any{"got": got, "reference": v.String(), "doc": predDoc[pred]})
		}
	case mustReject:
		k.c.Count("pred_judged_reject:"+pred, 1)
		k.c.Seen("reject_reasons", pred+":"+reason)
		if got {
			k.bad("C29-"+pred+"-accepts-"+reason, pred, s, "accepts a string the documentation excludes ("+reason+")", map[string]any{"got": got, "reference": v.String(), "doc": predDoc[pred]})
		}
	}
}

// raw checks everything that can be said about an arbitrary string.
func (k *chk) raw(s string, origin string) {
	f := scan(s)
	special := f.colons+f.hashes+f.ats+f.stars > 0 || f.space || f.control || f.uspace || f.invalid
	k.c.Case("raw:"+classSig(s), special)
	k.c.Count("raw_strings:"+origin, 1)

	// validity predicates versus the reference recogniser
	k.guard("IsValidObject", s, func() { v, r := refObject(s); k.judge("IsValidObject", s, tuple.IsValidObject(s), v, r) })
	k.guard("IsValidRelation", s, func() { v, r := refRelation(s); k.judge("IsValidRelation", s, tuple.IsValidRelation(s), v, r) })
	k.guard("IsValidUser", s, func() { v, r := refUser(s); k.judge("IsValidUser", s, tuple.IsValidUser(s), v, r) })
	k.guard("IsObjectRelation", s, func() { v, r := refUserset(s); k.judge("IsObjectRelation", s, tuple.IsObjectRelation(s), v, r) })
	k.guard("IsTypedWildcard", s, func() { v, r := refTypedWildcard(s); k.judge("IsTypedWildcard", s, tuple.IsTypedWildcard(s), v, r) })
	k.guard("IsWildcard", s, func() { v, r := refWildcard(s); k.judge("IsWildcard", s, tuple.IsWildcard(s), v, r) })
	k.guard("IsValidUserID", s, func() { _ = tuple.IsValidUserID(s) })   // undocumented: only "does not panic"
	k.guard("IsValidUserset", s, func() { _ = tuple.IsValidUserset(s) }) // undocumented: only "does not panic"
	k.guard("GetUserTypeFromUser", s, func() { _ = tuple.GetUserTypeFromUser(s) })

	// splitters: nothing is lost, and the split point is the documented one
	k.guard("SplitObject", s, func() {
		t, id := tuple.SplitObject(s)
		if f.colons == 0 {
			// doc example 3: "anne" returns "" and "anne"
			if t != "" || id != s {
				k.bad("C29-SplitObject-nocolon", "SplitObject", s, fmt.Sprintf("no ':' in input but got (%q,%q), documented (\"\", input)", t, id), nil)
			}
		} else {
			// doc examples 1,2 and the model grammar (a type never contains ':'): split at the first ':'
			wt, wid := s[:f.firstColon], s[f.firstColon+1:]
			if t != wt || id != wid {
				k.bad("C29-SplitObject-splitpoint", "SplitObject", s, fmt.Sprintf("got (%q,%q), want (%q,%q)", t, id, wt, wid), nil)
			}
		}
		if gt := tuple.GetType(s); gt != t {
			k.bad("C29-GetType", "GetType", s, fmt.Sprintf("GetType=%q but SplitObject type=%q", gt, t), nil)
		}
	})
	k.guard("SplitObjectRelation", s, func() {
		o, r := tuple.SplitObjectRelation(s)
		// "If no relation is present, it returns the original string and an empty relation."
		if f.hashes == 0 && (o != s || r != "") {
			k.bad("C29-SplitObjectRelation-norelation", "SplitObjectRelation", s, fmt.Sprintf("no '#' in input but got (%q,%q)", o, r), nil)
		}
		if f.hashes == 1 {
			wo, wr := s[:f.firstHash], s[f.firstHash+1:]
			if o != wo || r != wr {
				k.bad("C29-SplitObjectRelation-splitpoint", "SplitObjectRelation", s, fmt.Sprintf("got (%q,%q), want (%q,%q)", o, r, wo, wr), nil)
			}
		}
		if f.hashes > 1 {
			k.c.Count("split_not_judged_multihash", 1)
		}
		if gr := tuple.GetRelation(s); gr != r {
			k.bad("C29-GetRelation", "GetRelation", s, fmt.Sprintf("GetRelation=%q but SplitObjectRelation relation=%q", gr, r), nil)
		}
	})
	k.guard("ToUserParts", s, func() {
		t, id, r := tuple.ToUserParts(s)
		if v, _ := refUser(s); v == mustAccept {
			// lossless string -> parts -> string for every documented user form
			if back := tuple.FromUserParts(t, id, r); back != s {
				k.bad("C29-userparts-string-roundtrip", "FromUserParts∘ToUserParts", s, fmt.Sprintf("parts (%q,%q,%q) render to %q", t, id, r, back), nil)
			}
			k.c.Count("rt_string_parts_string", 1)
		}
	})
	k.guard("StringToUserProto", s, func() {
		p := tuple.StringToUserProto(s)
		if v, form := refUser(s); v == mustAccept && form != "id" && form != "*" {
			// typed users are representable as a User proto; untyped ones are not (type pattern is non-empty)
			if back := tuple.UserProtoToString(p); back != s {
				k.bad("C29-userproto-string-roundtrip", "UserProtoToString∘StringToUserProto", s, fmt.Sprintf("proto %v renders to %q", p, back), nil)
			}
			k.c.Count("rt_string_proto_string", 1)
		}
	})

	// tuple strings
	k.guard("ParseTupleString", s, func() {
		tk, err := tuple.ParseTupleString(s)
		var obj, rel, user string
		cut := false
		if i := strings.IndexByte(s, '#'); i >= 0 {
			if j := strings.IndexByte(s[i+1:], '@'); j >= 0 {
				obj, rel, user, cut = s[:i], s[i+1:i+1+j], s[i+1+j+1:], true
			}
		}
		if err == nil {
			k.c.Count("parse_accepted", 1)
			if back := tuple.TupleKeyToString(tk); back != s {
				k.bad("C29-parse-render-roundtrip", "TupleKeyToString∘ParseTupleString", s, fmt.Sprintf("parsed (%q,%q,%q) renders to %q", tk.GetObject(), tk.GetRelation(), tk.GetUser(), back), nil)
			}
			vo, ro := refObject(tk.GetObject())
			vr, rr := refRelation(tk.GetRelation())
			vu, ru := refUser(tk.GetUser())
			for _, part := range []partV{{"object", tk.GetObject(), vo, ro}, {"relation", tk.GetRelation(), vr, rr}, {"user", tk.GetUser(), vu, ru}} {
				if part.v == mustReject {
					k.bad("C29-ParseTupleString-accepts-"+part.name+"-"+part.reason, "ParseTupleString", s,
						fmt.Sprintf("accepted a tuple whose %s %q the documentation excludes (%s)", part.name, part.val, part.reason), nil)
				}
			}
			return
		}
		k.c.Count("parse_rejected", 1)
		if cut {
			vo, _ := refObject(obj)
			vr, _ := refRelation(rel)
			vu, _ := refUser(user)
			if vo == mustAccept && vr == mustAccept && vu == mustAccept {
				k.bad("C29-ParseTupleString-rejects-valid", "ParseTupleString", s, fmt.Sprintf("rejected object#relation@user with all three parts of documented form: %v", err), nil)
			}
		}
	})
}

// ---------------------------------------------------------------------------------------------
// structured generation

var plainRunes = []rune("abcxyzXYZ0179-_.|+=,/~!$%&()[]{}<>?;'\"\\^`éßñΩ日本語😀\u200b\ufffd")

type gen struct{ r *rand.Rand }

func (g *gen) word(min, max int) string {
	n := min + g.r.Intn(max-min+1)
	if g.r.Intn(40) == 0 {
		n = 200 + g.r.Intn(200) // very long
	}
	var sb strings.Builder
	// biased towards a tiny sub-alphabet so that equal parts and near-collisions happen
	small := g.r.Intn(3) == 0
	for i := 0; i < n; i++ {
		if small {
			sb.WriteRune([]rune("ab|é")[g.r.Intn(4)])
		} else {
			sb.WriteRune(plainRunes[g.r.Intn(len(plainRunes))])
		}
	}
	return sb.String()
}

func wordClass(w string) string {
	f := scan(w)
	c := ""
	if f.multibyte {
		c += "m"
	}
	if strings.Contains(w, "|") {
		c += "p"
	}
	if len(w) > 100 {
		c += "L"
	}
	if len(w) == 1 {
		c += "1"
	}
	if f.colons > 0 {
		c += ":"
	}
	if f.ats > 0 {
		c += "@"
	}
	if f.stars > 0 {
		c += "*"
	}
	if c == "" {
		c = "-"
	}
	return c
}

// idExt returns an id from the extended domain: accepted by the API's id pattern, outside the
// grammar the validity doc comments describe (':' as in the documented test case
// "url:https://bar/baz", '@' as in e-mail ids, '*' inside an id).
func (g *gen) idExt() string {
	switch g.r.Intn(5) {
	case 0:
		return "https://" + g.word(1, 4) + "/" + g.word(1, 3)
	case 1:
		return g.word(1, 3) + ":" + g.word(1, 3)
	case 2:
		return g.word(1, 4) + "@" + g.word(1, 4) + ".com"
	case 3:
		switch g.r.Intn(3) { // '*' is special only when it is the whole id: inside, trailing, doubled
		case 0:
			return g.word(1, 2) + "*" + g.word(0+1, 2)
		case 1:
			return g.word(1, 3) + "*"
		default:
			return "**"
		}
	default:
		return g.word(1, 2) + ":" + g.word(1, 2) + ":" + g.word(1, 2)
	}
}

func eq3(a1, a2, a3, b1, b2, b3 string) bool { return a1 == b1 && a2 == b2 && a3 == b3 }

// structured runs every round trip on one generated value set.
func (k *chk) structured(g *gen) {
	c := k.c
	T, id, rel := g.word(1, 6), g.word(1, 8), g.word(1, 6)
	uT, uid, urel := g.word(1, 6), g.word(1, 8), g.word(1, 6)
	if g.r.Intn(8) == 0 { // self-referential shapes
		uT, uid, urel = T, id, rel
	}
	ext := g.r.Intn(4) == 0
	if ext {
		uid = g.idExt()
		if g.r.Intn(2) == 0 {
			id = g.idExt()
			if strings.ContainsAny(id, "@") { // an object id with '@' would move ParseTupleString's cut only if before '#': keep it, Parse cuts at '#' first
				c.Count("ext_object_id_with_at", 1)
			}
		}
	}
	obj := T + ":" + id

	userKind := []string{"object", "userset", "typedwildcard", "untyped-id", "untyped-*", "userset-star-id"}[g.r.Intn(6)]
	var user string
	var uparts [3]string
	switch userKind {
	case "object":
		user, uparts = uT+":"+uid, [3]string{uT, uid, ""}
	case "userset":
		user, uparts = uT+":"+uid+"#"+urel, [3]string{uT, uid, urel}
	case "typedwildcard":
		user, uparts = uT+":*", [3]string{uT, "*", ""}
	case "untyped-id":
		if strings.Contains(uid, ":") {
			uid = strings.ReplaceAll(uid, ":", "-")
		}
		user, uparts = uid, [3]string{"", uid, ""}
	case "untyped-*":
		user, uparts = "*", [3]string{"", "*", ""}
	case "userset-star-id": // documentation silent on validity: only round-trip-checked
		user, uparts = uT+":*#"+urel, [3]string{uT, "*", urel}
	}
	sig := fmt.Sprintf("struct:user=%s|T=%s|id=%s|rel=%s|uT=%s|uid=%s|urel=%s|self=%v", userKind, wordClass(T), wordClass(id), wordClass(rel), wordClass(uT), wordClass(uparts[1]), wordClass(uparts[2]), uT == T && uid == id)
	c.Case(sig, true)
	c.Count("struct_values:"+userKind, 1)
	inGrammar := !strings.ContainsAny(id, ":@*") // object id inside the documented validity grammar
	userInGrammar := userKind != "userset-star-id" && !strings.ContainsAny(uparts[1], ":@") && (uparts[1] == "*" || !strings.Contains(uparts[1], "*"))

	c.SampleEvery(int(c.Counter("struct_values:"+userKind)), 997, func() any {
		return map[string]any{"kind": "structured", "object": obj, "relation": rel, "user": user, "signature": sig}
	})

	// (b) objects
	k.guard("BuildObject/SplitObject", obj, func() {
		if got := tuple.BuildObject(T, id); got != obj {
			k.bad("C29-BuildObject", "BuildObject", obj, fmt.Sprintf("BuildObject(%q,%q)=%q", T, id, got), nil)
		}
		t2, id2 := tuple.SplitObject(tuple.BuildObject(T, id))
		if t2 != T || id2 != id {
			k.bad("C29-object-roundtrip", "SplitObject∘BuildObject", obj, fmt.Sprintf("(%q,%q) -> (%q,%q)", T, id, t2, id2), map[string]any{"type": T, "id": id})
		}
		t3, id3 := tuple.SplitObject(tuple.ObjectKey(&openfgav1.Object{Type: T, Id: id}))
		if t3 != T || id3 != id {
			k.bad("C29-objectkey-roundtrip", "SplitObject∘ObjectKey", obj, fmt.Sprintf("(%q,%q) -> (%q,%q)", T, id, t3, id3), nil)
		}
		if tuple.GetType(obj) != T {
			k.bad("C29-GetType", "GetType", obj, fmt.Sprintf("GetType=%q want %q", tuple.GetType(obj), T), nil)
		}
		if inGrammar && !tuple.IsValidObject(obj) {
			k.bad("C29-IsValidObject-rejects-type:id", "IsValidObject", obj, "rejects a generated valid object", map[string]any{"doc": predDoc["IsValidObject"]})
		}
		c.Count("rt_object", 1)
	})

	// (c) object#relation
	k.guard("ToObjectRelationString/SplitObjectRelation", obj+"#"+rel, func() {
		or := tuple.ToObjectRelationString(obj, rel)
		o2, r2 := tuple.SplitObjectRelation(or)
		if o2 != obj || r2 != rel {
			k.bad("C29-objectrelation-roundtrip", "SplitObjectRelation∘ToObjectRelationString", or, fmt.Sprintf("(%q,%q) -> (%q,%q)", obj, rel, o2, r2), nil)
		}
		if tuple.GetRelation(or) != rel {
			k.bad("C29-GetRelation", "GetRelation", or, fmt.Sprintf("GetRelation=%q want %q", tuple.GetRelation(or), rel), nil)
		}
		for _, rr := range []string{rel, ""} {
			as := tuple.GetObjectRelationAsString(&openfgav1.ObjectRelation{Object: obj, Relation: rr})
			o3, r3 := tuple.SplitObjectRelation(as)
			if o3 != obj || r3 != rr {
				k.bad("C29-objectrelation-asstring-roundtrip", "SplitObjectRelation∘GetObjectRelationAsString", as, fmt.Sprintf("(%q,%q) -> (%q,%q)", obj, rr, o3, r3), nil)
			}
			a, b, cc := tuple.ToUserPartsFromObjectRelation(&openfgav1.ObjectRelation{Object: obj, Relation: rr})
			if !eq3(a, b, cc, T, id, rr) {
				k.bad("C29-userparts-from-objectrelation", "ToUserPartsFromObjectRelation", as, fmt.Sprintf("(%q,%q) -> (%q,%q,%q)", obj, rr, a, b, cc), nil)
			}
		}
		if inGrammar && !tuple.IsObjectRelation(or) {
			k.bad("C29-IsObjectRelation-rejects-type:id#rel", "IsObjectRelation", or, "rejects a generated valid object#relation", map[string]any{"doc": predDoc["IsObjectRelation"]})
		}
		if inGrammar && tuple.GetUserTypeFromUser(or) != tuple.UserSet {
			k.bad("C29-GetUserTypeFromUser-userset", "GetUserTypeFromUser", or, "a valid object#relation is not classified as userset", nil)
		}
		if inGrammar && tuple.GetUserTypeFromUser(obj) != tuple.User {
			k.bad("C29-GetUserTypeFromUser-user", "GetUserTypeFromUser", obj, "a valid object is not classified as user", nil)
		}
		c.Count("rt_objectrelation", 1)
	})

	// (d) user parts, both directions
	k.guard("FromUserParts/ToUserParts", user, func() {
		s := tuple.FromUserParts(uparts[0], uparts[1], uparts[2])
		if s != user {
			k.bad("C29-FromUserParts-render", "FromUserParts", user, fmt.Sprintf("FromUserParts(%q,%q,%q)=%q want %q", uparts[0], uparts[1], uparts[2], s, user), nil)
		}
		a, b, cc := tuple.ToUserParts(s)
		if !eq3(a, b, cc, uparts[0], uparts[1], uparts[2]) {
			k.bad("C29-userparts-roundtrip", "ToUserParts∘FromUserParts", user, fmt.Sprintf("(%q,%q,%q) -> %q -> (%q,%q,%q)", uparts[0], uparts[1], uparts[2], s, a, b, cc), map[string]any{"parts": uparts})
		}
		a, b, cc = tuple.ToUserParts(user)
		if back := tuple.FromUserParts(a, b, cc); back != user {
			k.bad("C29-userparts-string-roundtrip", "FromUserParts∘ToUserParts", user, fmt.Sprintf("%q -> (%q,%q,%q) -> %q", user, a, b, cc, back), nil)
		}
		if tuple.UsersetMatchTypeAndRelation(user, uparts[2], uparts[0]) != true {
			k.bad("C29-UsersetMatchTypeAndRelation", "UsersetMatchTypeAndRelation", user, "does not match its own type and relation", nil)
		}
		if tuple.UsersetMatchTypeAndRelation(user, uparts[2]+"x", uparts[0]) || tuple.UsersetMatchTypeAndRelation(user, uparts[2], uparts[0]+"x") {
			k.bad("C29-UsersetMatchTypeAndRelation", "UsersetMatchTypeAndRelation", user, "matches a different type or relation", nil)
		}
		c.Count("rt_userparts", 1)
	})

	// (e) user protos, both directions (typed users only: the proto's type is non-empty)
	if uparts[0] != "" {
		k.guard("UserProtoToString/StringToUserProto", user, func() {
			var p *openfgav1.User
			switch {
			case uparts[2] != "":
				p = &openfgav1.User{User: &openfgav1.User_Userset{Userset: &openfgav1.UsersetUser{Type: uparts[0], Id: uparts[1], Relation: uparts[2]}}}
			case uparts[1] == "*":
				p = &openfgav1.User{User: &openfgav1.User_Wildcard{Wildcard: &openfgav1.TypedWildcard{Type: uparts[0]}}}
			default:
				p = &openfgav1.User{User: &openfgav1.User_Object{Object: &openfgav1.Object{Type: uparts[0], Id: uparts[1]}}}
			}
			s := tuple.UserProtoToString(p)
			if s != user {
				k.bad("C29-UserProtoToString-render", "UserProtoToString", user, fmt.Sprintf("%v renders to %q want %q", p, s, user), nil)
			}
			back := tuple.StringToUserProto(s)
			if !proto.Equal(back, p) {
				k.bad("C29-userproto-roundtrip", "StringToUserProto∘UserProtoToString", user, fmt.Sprintf("%v -> %q -> %v", p, s, back), nil)
			}
			if s2 := tuple.UserProtoToString(tuple.StringToUserProto(user)); s2 != user {
				k.bad("C29-userproto-string-roundtrip", "UserProtoToString∘StringToUserProto", user, fmt.Sprintf("%q -> %q", user, s2), nil)
			}
			c.Count("rt_userproto", 1)
		})
	}

	// (f) typed wildcards
	k.guard("TypedPublicWildcard", uT, func() {
		w := tuple.TypedPublicWildcard(uT)
		if w != uT+":*" {
			k.bad("C29-TypedPublicWildcard-render", "TypedPublicWildcard", uT, fmt.Sprintf("got %q", w), nil)
		}
		if !tuple.IsTypedWildcard(w) || !tuple.IsWildcard(w) {
			k.bad("C29-IsTypedWildcard-rejects-type:*", "IsTypedWildcard", w, "TypedPublicWildcard(type) is not recognised as a (typed) wildcard", nil)
		}
		t2, id2 := tuple.SplitObject(w)
		if t2 != uT || id2 != "*" {
			k.bad("C29-typedwildcard-roundtrip", "SplitObject∘TypedPublicWildcard", w, fmt.Sprintf("-> (%q,%q)", t2, id2), nil)
		}
		if p := tuple.StringToUserProto(w); p.GetWildcard() == nil || p.GetWildcard().GetType() != uT {
			k.bad("C29-typedwildcard-proto", "StringToUserProto∘TypedPublicWildcard", w, fmt.Sprintf("-> %v", p), nil)
		}
		if !strings.HasSuffix(uid, ":*") && uid != "*" && tuple.IsTypedWildcard(uT+":"+uid) {
			k.bad("C29-IsTypedWildcard-accepts-nosuffix", "IsTypedWildcard", uT+":"+uid, "an object with an id other than * is reported as typed wildcard", nil)
		}
		c.Count("rt_typedwildcard", 1)
	})

	// (a) tuples
	tk := &openfgav1.TupleKey{Object: obj, Relation: rel, User: user}
	tkStr := obj + "#" + rel + "@" + user
	k.guard("TupleKeyToString/ParseTupleString", tkStr, func() {
		renders := map[string]string{
			"TupleKeyToString":                        tuple.TupleKeyToString(tk),
			"TupleKeyToString(without-condition)":     tuple.TupleKeyToString(tuple.TupleKeyToTupleKeyWithoutCondition(tk)),
			"Tuple.String":                            tuple.From(tk).String(),
			"TupleKeyWithConditionToString(no-cond.)": tuple.TupleKeyWithConditionToString(tk),
		}
		for name, s := range renders {
			got, err := tuple.ParseTupleString(s)
			if err != nil {
				// a tuple is "valid" when its parts are of the documented forms, or when the package's own validity
				// predicates accept each part (e.g. e-mail style ids containing '@', on which the doc comments are silent)
				if (inGrammar && userInGrammar) || (tuple.IsValidObject(obj) && tuple.IsValidRelation(rel) && tuple.IsValidUser(user)) {
					k.bad("C29-tuple-roundtrip-parse-error", "ParseTupleString∘"+name, s, fmt.Sprintf("valid tuple (%q,%q,%q) rendered as %q does not parse: %v", obj, rel, user, s, err), nil)
				} else {
					c.Count("tuple_rt_not_judged_parse_error_outside_grammar", 1)
				}
				continue
			}
			if got.GetObject() != obj || got.GetRelation() != rel || got.GetUser() != user || got.GetCondition() != nil {
				k.bad("C29-tuple-roundtrip", "ParseTupleString∘"+name, s, fmt.Sprintf("(%q,%q,%q) -> %q -> (%q,%q,%q)", obj, rel, user, s, got.GetObject(), got.GetRelation(), got.GetUser()), nil)
			}
			c.Count("rt_tuple", 1)
		}
		// with a condition the rendering is a log format (contains spaces); ParseTupleString documents only
		// 'object#relation@user'. Observed, not judged.
		withCond := tuple.NewTupleKeyWithCondition(obj, rel, user, "cond1", nil)
		s := tuple.TupleKeyWithConditionToString(withCond)
		if _, err := tuple.ParseTupleString(s); err != nil {
			c.Count("tuple_with_condition_rendering_not_parseable(not judged)", 1)
		}
		// self-defining
		selfUser := obj + "#" + rel
		if !tuple.IsSelfDefining(&openfgav1.TupleKey{Object: obj, Relation: rel, User: selfUser}) {
			k.bad("C29-IsSelfDefining-miss", "IsSelfDefining", obj+"#"+rel+"@"+selfUser, "object#relation@object#relation is not self-defining", nil)
		}
		if userKind == "userset" && !strings.EqualFold(user, selfUser) && tuple.IsSelfDefining(tk) {
			k.bad("C29-IsSelfDefining-false-positive", "IsSelfDefining", tkStr, "a tuple whose user differs from object#relation is reported self-defining", nil)
		}
	})

	// feed the rendered strings and one-edit neighbours of them to the raw checks as well
	k.raw(user, "structured")
	k.raw(tkStr, "structured")
}

// ---------------------------------------------------------------------------------------------
// raw generation

var rawTokens = []string{
	"a", "b", "Z", "7", "-", "_", ".", "|", "a", "b",
	":", ":", ":", "#", "#", "#", "@", "@", "*", "*",
	" ", "\t", "\n", "\x00", "\x7f", "\u0085",
	"é", "日", "😀", "\u00a0", "\u2028", "\u3000", "\u200b",
	"\xff", "\xc3", "\xe6\x97",
}

func (g *gen) rawString() string {
	n := g.r.Intn(13)
	var sb strings.Builder
	for i := 0; i < n; i++ {
		sb.WriteString(rawTokens[g.r.Intn(len(rawTokens))])
	}
	return sb.String()
}

// edit applies one random edit to a string at a rune/byte position.
func (g *gen) edit(s string) string {
	tok := rawTokens[g.r.Intn(len(rawTokens))]
	pos := 0
	if len(s) > 0 {
		pos = g.r.Intn(len(s) + 1)
	}
	switch g.r.Intn(3) {
	case 0: // insert
		return s[:pos] + tok + s[pos:]
	case 1: // delete a byte
		if pos < len(s) {
			return s[:pos] + s[pos+1:]
		}
		return s
	default: // replace a byte
		if pos < len(s) {
			return s[:pos] + tok + s[pos+1:]
		}
		return s + tok
	}
}

func (g *gen) validSeed() string {
	T, id, rel := g.word(1, 3), g.word(1, 3), g.word(1, 3)
	switch g.r.Intn(7) {
	case 0:
		return T + ":" + id
	case 1:
		return T + ":" + id + "#" + rel
	case 2:
		return T + ":*"
	case 3:
		return id
	case 4:
		return "*"
	case 5:
		return rel
	default:
		return T + ":" + id + "#" + rel + "@" + g.word(1, 3) + ":" + g.word(1, 3)
	}
}

// enumerate calls f on every string over alpha of length 0..maxLen, shortest first.
func enumerate(alpha []string, maxLen int, f func(string)) int {
	n := 0
	var rec func(prefix string, left int)
	rec = func(prefix string, left int) {
		if left == 0 {
			f(prefix)
			n++
			return
		}
		for _, a := range alpha {
			rec(prefix+a, left-1)
		}
	}
	for l := 0; l <= maxLen; l++ {
		rec("", l)
	}
	return n
}

func run(c *vk.Ctx) {
	k := &chk{c: c}
	c.SetRule("Three workloads. (1) structured: (type,id,relation,user) drawn from an alphabet of ASCII punctuation `-_.|+=,/…`, " +
		"multi-byte runes, 1–8 runes or 200–400 runes, user kind ∈ {object, userset, typed wildcard, untyped id, *, type:*#rel}, " +
		"one quarter with ids from the extended domain (':' '@' '*' inside an id); every renderer is applied and parsed back; a case's " +
		"signature is the user kind × character classes of each part (multi-byte / pipe / long / single / ':' / '@' / '*') × self-reference. " +
		"(2) raw: all strings over a small alphabet up to a fixed length (complete enumeration of that block), random token strings of length 0–12 " +
		"over separators, space, tab, newline, NUL, DEL, C1 control, NBSP, U+2028, U+3000, multi-byte and invalid UTF-8, and 1–3 random edits of valid " +
		"strings; signature = run-compressed character-class pattern; non-trivial = contains a separator / space / control / non-ASCII-space / invalid byte. " +
		"(3) every raw string also goes through the splitters and ParseTupleString (no panic, nothing lost, documented split point).")
	c.Assume("Reference recogniser (ref.go) is written from the doc comments in pkg/tuple/tuple.go and the property text only; where they are silent " +
		"(non-ASCII white space, invalid UTF-8, '@' or '*' inside a part, '#' before ':', empty string / empty relation, untyped 'a#b') nothing is judged.")
	c.Assume("First-colon split of 'type:id' is taken as documented: SplitObject examples, the package's documented case url:https://bar/baz, and type names never contain ':' (API pattern ^[^:#@\\s]{1,254}$).")
	c.Assume("Go standard library (strings, unicode/utf8, proto.Equal) is trusted.")

	// (2a) complete enumeration over a small alphabet
	alpha := []string{"a", ":", "#", "@", "*", " ", "\t", "é", "|", "\xff"}
	maxLen := 5
	if !c.Quick() {
		alpha = append(alpha, "\u00a0", "b")
		maxLen = 6
	}
	n := enumerate(alpha, maxLen, func(s string) { k.raw(s, "enumerated") })
	// second block: separators only, longer strings (reaches type:id#rel#rel, type:id#rel@type:id, ...)
	alpha2 := []string{"a", ":", "#", "@", "*"}
	maxLen2 := c.Pick(7, 9)
	n2 := enumerate(alpha2, maxLen2, func(s string) { k.raw(s, "enumerated") })
	c.Extra("enumerated_blocks", []map[string]any{
		{"alphabet": fmt.Sprintf("%q", alpha), "max_len": maxLen, "strings": n, "complete": true},
		{"alphabet": fmt.Sprintf("%q", alpha2), "max_len": maxLen2, "strings": n2, "complete": true},
	})
	c.Logf("enumerated %d strings over %d symbols up to length %d and %d strings over %d symbols up to length %d", n, len(alpha), maxLen, n2, len(alpha2), maxLen2)

	// (1) structured
	g := &gen{r: c.Rand("structured")}
	ns := c.Pick(300000, 2000000)
	for i := 0; i < ns; i++ {
		k.structured(g)
	}
	c.Logf("structured values: %d", ns)

	// (2b) random raw strings and edits of valid strings
	g2 := &gen{r: c.Rand("raw")}
	nr := c.Pick(1500000, 8000000)
	for i := 0; i < nr; i++ {
		if i%2 == 0 {
			s := g2.rawString()
			k.raw(s, "random")
			c.SampleEvery(i, nr/3, func() any {
				vo, _ := refObject(s)
				vu, _ := refUser(s)
				return map[string]any{"kind": "raw", "input_quoted": fmt.Sprintf("%q", s), "class": classSig(s),
					"IsValidObject": tuple.IsValidObject(s), "ref_object": vo.String(), "IsValidUser": tuple.IsValidUser(s), "ref_user": vu.String()}
			})
		} else {
			s := g2.validSeed()
			for e := 1 + g2.r.Intn(3); e > 0; e-- {
				s = g2.edit(s)
			}
			k.raw(s, "edited")
		}
	}
	c.Logf("raw strings: %d", nr)

	// the monitors must have seen both verdicts for every documented predicate
	for _, p := range []string{"IsValidObject", "IsValidRelation", "IsValidUser", "IsObjectRelation", "IsTypedWildcard", "IsWildcard"} {
		if c.Counter("pred_judged_accept:"+p) == 0 || c.Counter("pred_judged_reject:"+p) == 0 {
			c.HarnessError("predicate %s: reference never produced both verdicts (accept=%d reject=%d)", p, c.Counter("pred_judged_accept:"+p), c.Counter("pred_judged_reject:"+p))
		}
	}
}
