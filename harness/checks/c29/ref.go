package c29

import (
	"strings"
	"unicode/utf8"
)

// This file is the independent reference: a three-valued recogniser written ONLY from the doc
// comments of pkg/tuple/tuple.go and the property statement, never from the implementation:
//
//   IsValidObject   "A valid object contains exactly one `:` and no `#` or spaces."
//   IsValidRelation "…does not contain any `:`, `#`, `@`, or spaces."
//   IsValidUser     "A valid user contains at most one `:`, at most one `#` and no spaces."
//   IsObjectRelation "returns true if the given string specifies a valid object and relation."
//   IsTypedWildcard "A typed wildcard has the form 'type:*'."   IsWildcard "'*' or 'type:*'"
//   property C29:   "one type prefix, at most one relation, and no spaces or control characters"
//   documented example forms: 'user:maria', 'group:fga#member', 'anne', '*', 'user:*',
//   'document:1#viewer@user:jon'.
//
// A verdict is mustAccept / mustReject only where those texts leave no doubt; everything else
// (non-ASCII white space, invalid UTF-8, `@` or `*` inside a part, `#` before `:`, empty
// string/relation, …) is silent and is never judged.

type verdict int

const (
	silent verdict = iota
	mustAccept
	mustReject
)

func (v verdict) String() string { return [...]string{"silent", "mustAccept", "mustReject"}[v] }

type feat struct {
	colons, hashes, ats, stars int
	firstColon, firstHash      int
	space                      bool // U+0020
	control                    bool // category Cc: U+0000-001F, U+007F-009F
	uspace                     bool // other Unicode white space (documentation says only "spaces")
	invalid                    bool // invalid UTF-8
	multibyte                  bool
}

func isCc(r rune) bool { return r < 0x20 || (r >= 0x7f && r <= 0x9f) }

func isOtherSpace(r rune) bool {
	switch {
	case r == 0x00a0, r == 0x1680, r >= 0x2000 && r <= 0x200a, r == 0x2028, r == 0x2029, r == 0x202f, r == 0x205f, r == 0x3000:
		return true
	}
	return false
}

func scan(s string) feat {
	f := feat{firstColon: -1, firstHash: -1}
	for i := 0; i < len(s); {
		r, n := utf8.DecodeRuneInString(s[i:])
		if r == utf8.RuneError && n <= 1 {
			f.invalid = true
			i++
			continue
		}
		if n > 1 {
			f.multibyte = true
		}
		switch {
		case r == ':':
			if f.colons == 0 {
				f.firstColon = i
			}
			f.colons++
		case r == '#':
			if f.hashes == 0 {
				f.firstHash = i
			}
			f.hashes++
		case r == '@':
			f.ats++
		case r == '*':
			f.stars++
		case r == ' ':
			f.space = true
		case isCc(r):
			f.control = true
		case isOtherSpace(r):
			f.uspace = true
		}
		i += n
	}
	return f
}

// refObject: verdict for IsValidObject.
func refObject(s string) (verdict, string) {
	f := scan(s)
	switch {
	case f.space:
		return mustReject, "space"
	case f.control:
		return mustReject, "control"
	case f.hashes > 0:
		return mustReject, "hash"
	case f.colons == 0:
		return mustReject, "nocolon"
	case f.colons > 1:
		return mustReject, "twocolons"
	}
	t, id := s[:f.firstColon], s[f.firstColon+1:]
	if t == "" {
		return mustReject, "emptytype"
	}
	if id == "" {
		return mustReject, "emptyid"
	}
	if f.invalid || f.uspace || f.ats > 0 || f.stars > 0 {
		return silent, ""
	}
	return mustAccept, "type:id"
}

// refRelation: verdict for IsValidRelation.
func refRelation(s string) (verdict, string) {
	f := scan(s)
	switch {
	case f.space:
		return mustReject, "space"
	case f.control:
		return mustReject, "control"
	case f.colons > 0:
		return mustReject, "colon"
	case f.hashes > 0:
		return mustReject, "hash"
	case f.ats > 0:
		return mustReject, "at"
	}
	if s == "" || f.invalid || f.uspace || f.stars > 0 {
		return silent, ""
	}
	return mustAccept, "relation"
}

// refUser: verdict for IsValidUser.
func refUser(s string) (verdict, string) {
	f := scan(s)
	switch {
	case f.space:
		return mustReject, "space"
	case f.control:
		return mustReject, "control"
	case f.colons > 1:
		return mustReject, "twocolons"
	case f.hashes > 1:
		return mustReject, "twohashes"
	}
	if s == "" {
		return silent, ""
	}
	form := ""
	switch {
	case f.colons == 0 && f.hashes == 0:
		if s == "*" {
			return mustAccept, "*"
		}
		form = "id"
	case f.colons == 0: // "a#b": an object#relation whose object has no type - undocumented
		return silent, ""
	case f.hashes == 1 && f.firstHash < f.firstColon: // "a#b:c" - undocumented
		return silent, ""
	case f.hashes == 0:
		t, id := s[:f.firstColon], s[f.firstColon+1:]
		if t == "" {
			return mustReject, "emptytype"
		}
		if id == "" {
			return mustReject, "emptyid"
		}
		if id == "*" && !strings.ContainsAny(t, "*@") && !f.invalid && !f.uspace {
			return mustAccept, "type:*"
		}
		form = "type:id"
	default:
		t, id, rel := s[:f.firstColon], s[f.firstColon+1:f.firstHash], s[f.firstHash+1:]
		if t == "" {
			return mustReject, "emptytype"
		}
		if id == "" {
			return mustReject, "emptyid"
		}
		if rel == "" {
			return silent, ""
		}
		form = "type:id#rel"
	}
	if f.invalid || f.uspace || f.ats > 0 || f.stars > 0 {
		return silent, ""
	}
	return mustAccept, form
}

// refUserset: verdict for IsObjectRelation ("specifies a valid object and relation").
func refUserset(s string) (verdict, string) {
	f := scan(s)
	switch {
	case f.space:
		return mustReject, "space"
	case f.control:
		return mustReject, "control"
	case f.hashes == 0:
		return mustReject, "norelation"
	case f.hashes > 1:
		return mustReject, "twohashes"
	case f.colons == 0:
		return mustReject, "nocolon"
	case f.colons > 1:
		return mustReject, "twocolons"
	case f.firstHash < f.firstColon:
		return mustReject, "hashbeforecolon"
	}
	t, id, rel := s[:f.firstColon], s[f.firstColon+1:f.firstHash], s[f.firstHash+1:]
	switch {
	case t == "":
		return mustReject, "emptytype"
	case id == "":
		return mustReject, "emptyid"
	case rel == "":
		return mustReject, "emptyrelation"
	}
	if f.invalid || f.uspace || f.ats > 0 || f.stars > 0 {
		return silent, ""
	}
	return mustAccept, "type:id#rel"
}

// refTypedWildcard: verdict for IsTypedWildcard ("has the form 'type:*'").
func refTypedWildcard(s string) (verdict, string) {
	if !strings.HasSuffix(s, ":*") {
		return mustReject, "nosuffix"
	}
	t := s[:len(s)-2]
	f := scan(t)
	if t == "" || f.colons > 0 || f.hashes > 0 || f.ats > 0 || f.stars > 0 || f.space || f.control || f.uspace || f.invalid {
		return silent, ""
	}
	return mustAccept, "type:*"
}

// refWildcard: verdict for IsWildcard ("'*' or 'type:*'").
func refWildcard(s string) (verdict, string) {
	if s == "*" {
		return mustAccept, "*"
	}
	return refTypedWildcard(s)
}

// classSig maps a string to its run-compressed character-class pattern (the semantic shape of a raw
// input): a=plain ASCII, m=multi-byte, c=control, s=space, u=other Unicode space, x=invalid byte,
// separators stand for themselves.
func classSig(s string) string {
	var sb strings.Builder
	var last byte
	emit := func(b byte, compress bool) {
		if compress && b == last {
			return
		}
		sb.WriteByte(b)
		last = b
	}
	for i := 0; i < len(s); {
		r, n := utf8.DecodeRuneInString(s[i:])
		if r == utf8.RuneError && n <= 1 {
			emit('x', true)
			i++
			continue
		}
		switch {
		case r == ':' || r == '#' || r == '@' || r == '*':
			emit(byte(r), false)
		case r == ' ':
			emit('s', true)
		case isCc(r):
			emit('c', true)
		case isOtherSpace(r):
			emit('u', true)
		case n > 1:
			emit('m', true)
		default:
			emit('a', true)
		}
		i += n
	}
	if sb.Len() == 0 {
		return "<empty>"
	}
	return sb.String()
}
