// Package c16: stores are isolated from each other (interleaved histories over several stores that
// reuse the same type, relation, object, user, condition and model names on servers with every cache
// enabled; each store's answers are judged against the reference for that store only).
package c16

import (
	"context"
	"fmt"
	"sort"
	"strings"
	"sync"

	openfgav1 "github.com/openfga/api/proto/openfga/v1"

	"github.com/openfga/openfga/verifharness/checks/sem"
	"github.com/openfga/openfga/verifharness/drive"
	"github.com/openfga/openfga/verifharness/gen"
	"github.com/openfga/openfga/verifharness/ref"
	"github.com/openfga/openfga/verifharness/vk"
)

func init() { vk.Register("C16", "exploration", run) }

type world struct {
	p       *sem.Prepared
	state   map[string]*openfgav1.TupleKey
	pool    []*openfgav1.TupleKey
	written int            // changelog entries expected
	hist    map[string]int // "op key" -> how many times this store's own history contains it
	deleted bool
	name    string
	dirty   bool // written after its caches were warmed: default-consistency answers may be stale (not judged)
}

func run(c *vk.Ctx) {
	c.SetRule("groups of 4 stores on one server are filled from DIFFERENT seeded cases that share all names (types user/group/folder/doc, relation names, object and user ids, condition names); a history interleaves, store by store, Check / BatchCheck / ListObjects / ListUsers / Expand / Read / ReadChanges / ReadAuthorizationModels / assertions and writes; after every write to one store all stores are re-queried; every answer must match the reference (or the driver's own record) for that store alone; finally one store is deleted and must vanish from GetStore / ListStores while the others are unaffected; servers: all caches + pipeline (memory), all caches + weighted-graph engine (memory), all caches on sqlite; " +
		"distinct_nontrivial = distinct (API, server, rewrite skeleton, reference value/size class) where the same request has a DIFFERENT reference answer in at least one other store of the group")
	c.Assume("reference semantics harness/ref; writes and requests are serialised per group by the driver")
	c.RaceAnchors = []string{"/pkg/storage/cache.go", "/pkg/storage/storagewrappers/", "/pkg/typesystem/", "/pkg/storage/memory/", "/internal/graph/cached_resolver.go", "/internal/cachecontroller/"}
	if !sem.Calibrate(c) {
		return
	}
	type srvDef struct {
		name string
		cfg  drive.Cfg
		v2   bool
	}
	defs := []srvDef{
		{"memory,all-caches,pipeline", drive.Cfg{QueryCache: true, CheckIterCache: true, LOIterCache: true, SharedIter: true, Controller: true, LOEngine: "pipeline"}, false},
		{"memory,all-caches,v2", drive.Cfg{QueryCache: true, CheckIterCache: true, LOIterCache: true, SharedIter: true, Controller: true, V2: true}, true},
		{"sqlite,all-caches", drive.Cfg{Backend: "sqlite", QueryCache: true, CheckIterCache: true, LOIterCache: true, SharedIter: true, Controller: true}, false},
	}
	groups := c.Pick(8, 80)
	for di, d := range defs {
		srv, err := drive.New(d.cfg)
		if err != nil {
			c.HarnessError("server %s: %v", d.name, err)
			return
		}
		n := groups
		if d.cfg.Backend == "sqlite" {
			n = groups / 2
		}
		var wg sync.WaitGroup
		slots := make(chan struct{}, 6)
		for g := 0; g < n; g++ {
			wg.Add(1)
			slots <- struct{}{}
			go func(g int) {
				defer wg.Done()
				defer func() { <-slots }()
				group(c, srv, d.name, d.v2, di, g)
			}(g)
		}
		wg.Wait()
		srv.Close()
	}
}

func key(tk *openfgav1.TupleKey) string {
	return tk.GetObject() + "#" + tk.GetRelation() + "@" + tk.GetUser()
}

func (w *world) tuples() []*openfgav1.TupleKey {
	ks := make([]string, 0, len(w.state))
	for k := range w.state {
		ks = append(ks, k)
	}
	sort.Strings(ks)
	var out []*openfgav1.TupleKey
	for _, k := range ks {
		out = append(out, w.state[k])
	}
	return out
}

func group(c *vk.Ctx, srv *drive.Srv, sname string, v2 bool, di, g int) {
	r := c.Rand(fmt.Sprintf("group-%d-%d", di, g))
	var ws []*world
	for k := 0; k < 4; k++ {
		gc, store := sem.Generate(c, srv, r, fmt.Sprintf("c16-%d-%d-%d", di, g, k), gen.Options{})
		if gc == nil {
			continue
		}
		w := &world{state: map[string]*openfgav1.TupleKey{}, hist: map[string]int{}, name: fmt.Sprintf("c16-%d-%d-%d", di, g, k)}
		var stored []*openfgav1.TupleKey
		for j, tk := range gc.Tuples {
			if j%3 == 2 && ref.NewModel(gc.Model, ref.TemplateCondEval).ValidForRead(tk) {
				w.pool = append(w.pool, tk)
			} else {
				stored = append(stored, tk)
				w.state[key(tk)] = tk
				w.hist["W "+key(tk)]++
			}
		}
		p, err := sem.Install(c, srv, gc, store, stored)
		if err != nil {
			c.HarnessError("install: %v", err)
			return
		}
		w.p = p
		w.written = len(stored)
		ws = append(ws, w)
	}
	if len(ws) < 2 {
		return
	}
	ctx := context.Background()
	// the same request vocabulary for all stores
	objects := map[string][]string{}
	for _, t := range []string{"group", "folder", "doc"} {
		objects[t] = gen.Objects(t)
	}
	subjects := []string{"user:a", "user:b", "user:c", "user:*", "group:g1#member", "group:g2#member"}
	queryAll := func(phase string) {
		for wi, w := range ws {
			if w.deleted {
				continue
			}
			var extra []string
			for _, os := range objects {
				extra = append(extra, os...)
			}
			rc := ref.NewCase(w.p.Ref, w.tuples(), nil, append(extra, subjects...)...)
			others := func(f func(o *world) string, mine string) bool {
				for oi, o := range ws {
					if oi != wi && !o.deleted && f(o) != mine {
						return true
					}
				}
				return false
			}
			// Check on every relation this store's model defines, for shared object/subject names
			n := 0
			for _, t := range w.p.Ref.TypeNames() {
				for _, rel := range w.p.Ref.RelationNames(t) {
					for _, o := range objects[t] {
						for _, s := range subjects {
							if w.dirty || n >= 90 || r.Intn(4) != 0 {
								continue
							}
							n++
							su, sr := ref.UserParts(s)
							st, _ := ref.SplitObject(su)
							if sr != "" && w.p.Ref.Rewrite(st, sr) == nil {
								continue // userset subject not definable in this store's model
							}
							k := rc.Eval(s).K(o, rel)
							out := srv.Check(drive.Req{Store: w.p.Store, Object: o, Relation: rel, User: s})
							differs := others(func(ow *world) string {
								ot, _ := ref.SplitObject(o)
								if ow.p.Ref.Rewrite(ot, rel) == nil {
									return "undefined"
								}
								return ref.NewCase(ow.p.Ref, ow.tuples(), nil).Eval(s).K(o, rel).String()
							}, k.String())
							rq := sem.Request{Object: o, Relation: rel, User: s}
							c.Case(fmt.Sprintf("check|%s|%s", sname, sem.ShapeOf(w.p, rq, k)), differs)
							c.Count("check_answers", 1)
							v := sem.JudgeCheck(k, rc.AnyUnevaluable(), out)
							if out.Code == "Canceled" || out.Code == "DeadlineExceeded" || out.Code == "openfga_2058" || out.Code == "openfga_2057" {
								c.Count("requests_cancelled_or_timed_out_without_client_cancel(not_judged_here)", 1)
								continue
							}
							if v != sem.Agree && v != sem.NotJudged {
								f := sem.ClassifyCheck("C16", rc, rq, k, out, "fast")
								if f == "" && v2 {
									f = sem.ClassifyV2("C16", w.p, rc, rq, k, out)
								}
								leak := ""
								for oi, ow := range ws {
									if oi == wi || ow.deleted {
										continue
									}
									ot, _ := ref.SplitObject(o)
									if ow.p.Ref.Rewrite(ot, rel) != nil && out.Err == nil {
										ok := ref.NewCase(ow.p.Ref, ow.tuples(), nil).Eval(s).K(o, rel)
										if ok != ref.E && (ok == ref.T) == out.Allowed {
											leak = fmt.Sprintf(" — the answer matches store #%d of the group (possible cross-store leak)", oi)
										}
									}
								}
								wt := sem.Witness(w.p, sname, "", rq, nil, k.String(), out.String())
								wt["state"] = gen.TupleStrings(w.tuples())
								wt["phase"] = phase
								c.Violation(f, fmt.Sprintf("check|%s|%s|%s", sname, v, k), fmt.Sprintf("[%s] store %d of a group of %d on %s: Check(%s#%s@%s) answered %s, reference for this store %s%s", phase, wi, len(ws), sname, o, rel, s, out, k, leak), wt)
							}
						}
					}
				}
			}
			// Read: exactly this store's tuples
			got, err := srv.ReadAll(w.p.Store)
			c.Count("read_all", 1)
			if err != nil {
				c.Violation("", "read-error", fmt.Sprintf("Read on store %d fails: %v", wi, err), nil)
			} else {
				a, b := strs(got), strs(w.tuples())
				c.Case("read|"+sname, others(func(ow *world) string { return strs(ow.tuples()) }, b))
				if a != b {
					c.Violation("", "read|"+sname, fmt.Sprintf("[%s] Read on store %d returns %s, the driver wrote %s", phase, wi, a, b), map[string]any{"store": wi})
				}
			}
			// ReadChanges: every listed change belongs to THIS store's own history and every own change is
			// listed. (Multiplicity is C14/C15's subject: the memory backend can re-list entries across pages
			// when other requests draw ULIDs concurrently; duplicates are only counted here.)
			seen := map[string]int{}
			token := ""
			for page := 0; page < 200; page++ {
				resp, err := srv.S.ReadChanges(ctx, &openfgav1.ReadChangesRequest{StoreId: w.p.Store, ContinuationToken: token})
				if err != nil {
					break
				}
				for _, ch := range resp.GetChanges() {
					op := "W "
					if ch.GetOperation() == openfgav1.TupleOperation_TUPLE_OPERATION_DELETE {
						op = "D "
					}
					seen[op+key(ch.GetTupleKey())]++
				}
				if len(resp.GetChanges()) == 0 || resp.GetContinuationToken() == token {
					break
				}
				token = resp.GetContinuationToken()
			}
			c.Case("changes|"+sname, true)
			for k, n := range seen {
				if w.hist[k] == 0 {
					c.Violation("", "changes-foreign|"+sname, fmt.Sprintf("[%s] ReadChanges on store %d lists %q, which this store's own history does not contain", phase, wi, k), map[string]any{"store": wi})
					break
				}
				if n > w.hist[k] {
					c.Count("changelog_entries_listed_more_often_than_written(C14_subject)", 1)
				}
			}
			for k := range w.hist {
				if seen[k] == 0 {
					c.Violation("", "changes-missing|"+sname, fmt.Sprintf("[%s] ReadChanges on store %d does not list %q of its own history", phase, wi, k), map[string]any{"store": wi})
					break
				}
			}
			// models: model-less resolution and listing stay per store
			ms, err := srv.S.ReadAuthorizationModels(ctx, &openfgav1.ReadAuthorizationModelsRequest{StoreId: w.p.Store})
			if err == nil {
				c.Case("models|"+sname, true)
				if len(ms.GetAuthorizationModels()) != 3 || ms.GetAuthorizationModels()[0].GetId() != w.p.ModelID {
					c.Violation("", "models|"+sname, fmt.Sprintf("[%s] ReadAuthorizationModels on store %d lists %d models with newest %s; this store wrote 3 models, newest %s", phase, wi, len(ms.GetAuthorizationModels()), ms.GetAuthorizationModels()[0].GetId(), w.p.ModelID), nil)
				}
			}
			// a model id of ANOTHER store must not be usable here
			other := ws[(wi+1)%len(ws)]
			if !other.deleted {
				o := srv.Check(drive.Req{Store: w.p.Store, Model: other.p.ModelID, Object: "doc:d1", Relation: "viewer", User: "user:a"})
				c.Case("foreign-model|"+sname, true)
				if o.Err == nil {
					c.Violation("", "foreign-model|"+sname, fmt.Sprintf("[%s] Check on store %d with the model id of store %d was answered (%s) instead of rejected", phase, wi, (wi+1)%len(ws), o), nil)
				}
			}
			// list objects for a shared (type, relation) if defined
			for _, t := range []string{"doc", "folder"} {
				rels := w.p.Ref.RelationNames(t)
				if len(rels) == 0 || w.dirty {
					continue
				}
				rel := rels[r.Intn(len(rels))]
				want, anyE := sem.RefListObjects(rc, t, rel, "user:a")
				if anyE {
					continue
				}
				lo := srv.ListObjects(drive.Req{Store: w.p.Store, Object: t, Relation: rel, User: "user:a"})
				c.Case(fmt.Sprintf("lo|%s|%s|n=%d", sname, ref.Shape(w.p.Ref.Rewrite(t, rel)), len(want)), len(want) > 0)
				if !sem.Hung(c, sname, lo) && lo.Err == nil {
					gotl := append([]string{}, lo.Items...)
					sort.Strings(gotl)
					if strings.Join(gotl, ",") != strings.Join(want, ",") {
						f := "?"
						for _, o := range append(append([]string{}, gotl...), want...) {
							if has(gotl, o) == has(want, o) {
								continue
							}
							kk := ref.F
							if has(want, o) {
								kk = ref.T
							}
							ff := sem.ClassifyCheck("C16", rc, sem.Request{Object: o, Relation: rel, User: "user:a"}, kk, drive.Outcome{Allowed: has(gotl, o)}, "fast")
							if f == "?" {
								f = ff
							} else if f != ff {
								f = ""
							}
						}
						if f == "?" {
							f = ""
						}
						c.Violation(f, "lo|"+sname, fmt.Sprintf("[%s] ListObjects(%s, %s, user:a) on store %d = %v, reference for this store %v", phase, t, rel, wi, gotl, want), map[string]any{"model": w.p.Ref.DSL(), "state": gen.TupleStrings(w.tuples())})
					}
				}
			}
		}
	}
	queryAll("initial")
	// assertions written to store 0 must not appear in store 1
	w0 := ws[0]
	t0 := w0.p.Ref.TypeNames()
	if len(t0) > 0 {
		for _, t := range t0 {
			rels := w0.p.Ref.RelationNames(t)
			if len(rels) == 0 {
				continue
			}
			_, err := srv.S.WriteAssertions(ctx, &openfgav1.WriteAssertionsRequest{StoreId: w0.p.Store, AuthorizationModelId: w0.p.ModelID,
				Assertions: []*openfgav1.Assertion{{TupleKey: &openfgav1.AssertionTupleKey{Object: t + ":d1", Relation: rels[0], User: "user:a"}, Expectation: true}}})
			if err == nil {
				for wi, w := range ws[1:] {
					ra, err := srv.S.ReadAssertions(ctx, &openfgav1.ReadAssertionsRequest{StoreId: w.p.Store, AuthorizationModelId: w.p.ModelID})
					c.Case("assertions|"+sname, true)
					if err == nil && len(ra.GetAssertions()) != 0 {
						c.Violation("", "assertions|"+sname, fmt.Sprintf("ReadAssertions on store %d returns %d assertions after a write to store 0 only", wi+1, len(ra.GetAssertions())), nil)
					}
				}
			}
			break
		}
	}
	// writes to one store at a time, then everything is re-queried
	for step := 0; step < c.Pick(3, 6); step++ {
		w := ws[step%len(ws)]
		if len(w.pool) > 0 {
			tk := w.pool[len(w.pool)-1]
			w.pool = w.pool[:len(w.pool)-1]
			if err := srv.WriteTuples(w.p.Store, w.p.ModelID, []*openfgav1.TupleKey{tk}); err != nil {
				c.HarnessError("write: %v", err)
				return
			}
			w.state[key(tk)] = tk
			w.written++
			w.hist["W "+key(tk)]++
		} else if len(w.state) > 0 {
			ts := w.tuples()
			tk := ts[r.Intn(len(ts))]
			if err := srv.DeleteTuples(w.p.Store, w.p.ModelID, []*openfgav1.TupleKey{tk}); err != nil {
				c.HarnessError("delete: %v", err)
				return
			}
			delete(w.state, key(tk))
			w.written++
			w.hist["D "+key(tk)]++
		}
		c.Count("writes", 1)
		// higher consistency is not requested: caches may legitimately serve the WRITTEN store stale for a
		// while, so from now on only its uncached APIs (Read, ReadChanges, models) are judged; the other,
		// untouched stores are judged in full.
		w.dirty = true
		queryAll(fmt.Sprintf("after-write-%d", step))
	}
	// delete one store
	victim := ws[len(ws)-1]
	if _, err := srv.S.DeleteStore(ctx, &openfgav1.DeleteStoreRequest{StoreId: victim.p.Store}); err != nil {
		c.HarnessError("DeleteStore: %v", err)
		return
	}
	victim.deleted = true
	c.Case("delete-store|"+sname, true)
	if _, err := srv.S.GetStore(ctx, &openfgav1.GetStoreRequest{StoreId: victim.p.Store}); err == nil {
		c.Violation("", "getstore-after-delete|"+sname, "GetStore succeeds for a deleted store", nil)
	}
	token := ""
	for page := 0; page < 500; page++ {
		resp, err := srv.S.ListStores(ctx, &openfgav1.ListStoresRequest{ContinuationToken: token})
		if err != nil {
			break
		}
		for _, st := range resp.GetStores() {
			if st.GetId() == victim.p.Store {
				c.Violation("", "liststores-after-delete|"+sname, "ListStores still lists a deleted store", nil)
			}
		}
		token = resp.GetContinuationToken()
		if token == "" {
			break
		}
	}
	// the same through the name filter (a different query shape in the SQL backends)
	for _, w := range ws {
		name := w.name
		if name == "" {
			continue
		}
		resp, err := srv.S.ListStores(ctx, &openfgav1.ListStoresRequest{Name: name})
		if err != nil {
			continue
		}
		c.Count("liststores_by_name_after_delete", 1)
		listed := false
		for _, st := range resp.GetStores() {
			if st.GetId() == w.p.Store {
				listed = true
			}
			if st.GetName() != name {
				c.Violation("", "liststores-name-filter|"+sname, fmt.Sprintf("ListStores(name=%q) lists store %s named %q", name, st.GetId(), st.GetName()), nil)
			}
		}
		if w.deleted && listed {
			c.Violation("", "liststores-by-name-after-delete|"+sname, fmt.Sprintf("ListStores(name=%q) still lists the deleted store %s", name, w.p.Store), nil)
		}
		if !w.deleted && !listed && resp.GetContinuationToken() == "" {
			c.Violation("", "liststores-by-name-missing|"+sname, fmt.Sprintf("ListStores(name=%q) does not list the existing store %s", name, w.p.Store), nil)
		}
	}
	queryAll("after-delete-store")
	c.SampleEvery(g, 4, func() any {
		var models []string
		for _, w := range ws {
			models = append(models, w.p.Ref.DSL())
		}
		return map[string]any{"server": sname, "stores": len(ws), "models": models}
	})
}

func has(xs []string, x string) bool {
	for _, y := range xs {
		if y == x {
			return true
		}
	}
	return false
}

func strs(tks []*openfgav1.TupleKey) string {
	var s []string
	for _, tk := range tks {
		k := key(tk)
		if cn := tk.GetCondition().GetName(); cn != "" {
			k += " with " + cn
			if len(tk.GetCondition().GetContext().GetFields()) > 0 {
				b, _ := tk.GetCondition().GetContext().MarshalJSON()
				k += " " + string(b)
			}
		}
		s = append(s, k)
	}
	sort.Strings(s)
	return "[" + strings.Join(s, " ") + "]"
}
