package c25

import (
	"context"
	"encoding/json"
	"fmt"
	"runtime/debug"
	"strings"

	openfgav1 "github.com/openfga/api/proto/openfga/v1"
	"google.golang.org/grpc/status"

	"github.com/openfga/openfga/pkg/server"
	serverconfig "github.com/openfga/openfga/pkg/server/config"
	"github.com/openfga/openfga/pkg/storage/memory"
	"github.com/openfga/openfga/verifharness/vk"
)

// e2eSrv is one in-process server with the pool's models written to it (one store per model chunk).
type e2eSrv struct {
	name   string
	s      *server.Server
	stores []string
	models []string
}

type e2e struct {
	pool []*cond
	srvs []*e2eSrv
}

func newE2E(c *vk.Ctx, pool []*cond, models []*openfgav1.AuthorizationModel) *e2e {
	e := &e2e{pool: pool}
	ctx := context.Background()
	for _, cfg := range []struct {
		name string
		opts []server.OpenFGAServiceV1Option
	}{
		{"check-v1", nil},
		{"check-weighted-graph", []server.OpenFGAServiceV1Option{server.WithExperimentals(serverconfig.ExperimentalWeightedGraphCheck)}},
	} {
		opts := append([]server.OpenFGAServiceV1Option{server.WithDatastore(memory.New())}, cfg.opts...)
		s, err := server.NewServerWithOpts(opts...)
		if err != nil {
			c.HarnessError("cannot start server %s: %v", cfg.name, err)
			return nil
		}
		es := &e2eSrv{name: cfg.name, s: s}
		for i, m := range models {
			st, err := s.CreateStore(ctx, &openfgav1.CreateStoreRequest{Name: fmt.Sprintf("c25-%d", i)})
			if err != nil {
				c.HarnessError("CreateStore: %v", err)
				return nil
			}
			wm, err := s.WriteAuthorizationModel(ctx, &openfgav1.WriteAuthorizationModelRequest{
				StoreId: st.GetId(), SchemaVersion: m.GetSchemaVersion(), TypeDefinitions: m.GetTypeDefinitions(), Conditions: m.GetConditions()})
			if err != nil {
				c.HarnessError("WriteAuthorizationModel chunk %d: %v", i, err)
				return nil
			}
			es.stores = append(es.stores, st.GetId())
			es.models = append(es.models, wm.GetAuthorizationModelId())
		}
		e.srvs = append(e.srvs, es)
	}
	return e
}

func (e *e2e) close() {
	for _, s := range e.srvs {
		s.s.Close()
	}
}

func errText(err error) string {
	if st, ok := status.FromError(err); ok {
		return fmt.Sprintf("code=%d %s", int32(st.Code()), st.Message())
	}
	return err.Error()
}

func errCode(err error) string {
	if st, ok := status.FromError(err); ok {
		return fmt.Sprintf("%d", int32(st.Code()))
	}
	return "non-status"
}

// one runs case i end to end: conditional tuple (stored or contextual) + Check with the request context.
func (e *e2e) one(c *vk.Ctx, base int64, i int, verbose bool) {
	vc, exp, discr := makeCase(e.pool, base, i)
	idx := condIndex(vc.C)
	chunk := idx / chunkSize
	srv := e.srvs[i%len(e.srvs)]
	variant := "written"
	if (i/len(e.srvs))%3 == 2 {
		variant = "contextual"
	}
	where := "Check/" + srv.name + "/" + variant
	ctx := context.Background()
	obj := fmt.Sprintf("doc:%d", i)
	tk := &openfgav1.TupleKey{Object: obj, Relation: relName(idx), User: "user:a",
		Condition: &openfgav1.RelationshipCondition{Name: vc.C.Name, Context: ctxpb(vc.Stored)}}

	// what does the oracle think of the stored context on its own?
	storedFail, storedNJ := false, false
	for _, p := range vc.C.Params {
		if w, ok := vc.Stored[p.Name]; ok {
			switch _, st := convert(p.T, w); st {
			case cFail:
				storedFail = true
			case cNJ:
				storedNJ = true
			}
		}
	}

	obs := map[string]any{"server": srv.name, "variant": variant}
	var got outcome
	func() {
		defer func() {
			if r := recover(); r != nil {
				got = outcome{"P", fmt.Sprintf("panic: %v\n%s", r, debug.Stack())}
			}
		}()
		req := &openfgav1.CheckRequest{StoreId: srv.stores[chunk], AuthorizationModelId: srv.models[chunk],
			TupleKey: &openfgav1.CheckRequestTupleKey{Object: obj, Relation: relName(idx), User: "user:a"},
			Context:  ctxpb(vc.Req)}
		if variant == "written" {
			_, err := srv.s.Write(ctx, &openfgav1.WriteRequest{StoreId: srv.stores[chunk], AuthorizationModelId: srv.models[chunk],
				Writes: &openfgav1.WriteRequestWrites{TupleKeys: []*openfgav1.TupleKey{tk}}})
			if err != nil {
				obs["write_error"] = errText(err)
				got = outcome{"W", errText(err)} // rejected at write time
				return
			}
		} else {
			req.ContextualTuples = &openfgav1.ContextualTupleKeys{TupleKeys: []*openfgav1.TupleKey{tk}}
		}
		resp, err := srv.s.Check(ctx, req)
		switch {
		case err != nil:
			got = outcome{"E", errText(err)}
			c.Seen("e2e_check_error_codes", errCode(err))
			c.Count("e2e_check_error_code_"+errCode(err), 1)
		case resp.GetAllowed():
			got = outcome{"T", ""}
		default:
			got = outcome{"F", ""}
		}
	}()
	obs["outcome"] = got

	sig := "e2e/" + srv.name + "/" + variant + "|" + vc.signature(exp)
	c.Case(sig, exp.Exp != "NJ")
	account(c, "e2e", vc, exp, discr)
	c.Count("e2e_"+srv.name+"_"+variant, 1)
	if verbose {
		b, _ := json.MarshalIndent(mkWitness("e2e", i, vc, exp, obs), "", " ")
		fmt.Printf("REPLAY e2e case %d:\n%s\n", i, b)
	}
	c.SampleEvery(i+1, c.Pick(1499, 29989), func() any { return mkWitness("e2e", i, vc, exp, obs) })

	report := func(what string) {
		eff := merge(vc.Req, vc.Stored)
		fid := findingFor(eff, exp, got)
		key := fid
		if key == "" {
			key = sig + "|" + got.Res
		}
		c.Violation(fid, key, what+" -- condition "+vc.C.decl()+" request="+ctxString(vc.Req)+" stored="+ctxString(vc.Stored),
			mkWitness("e2e", i, vc, exp, obs))
	}

	if got.Res == "W" {
		// The tuple never entered the store. That is the expected fate of a stored context holding a value
		// that is not of the declared type; it is a discrepancy when every stored value is a documented form.
		switch {
		case storedFail:
			c.Count("e2e_write_rejected_unconvertible_stored_context", 1)
		case storedNJ:
			c.Count("e2e_write_rejected_notjudged_form", 1)
		default:
			report(where + ": Write rejected a conditional tuple whose stored context only holds values of the declared types: " + got.Err)
		}
		return
	}
	if variant == "written" && storedFail {
		c.Count("e2e_write_ACCEPTED_unconvertible_stored_context", 1)
	}
	if exp.Exp == "NJ" {
		c.Count("e2e_notjudged_"+exp.Why+"_observed_"+got.Res, 1)
	}
	if strings.Contains(got.Err, "cost limit exceeded") && exp.Exp != "E" {
		c.Inconclusive("evaluation cost limit exceeded")
		return
	}
	if !agree(exp, got) {
		report(describe(exp, got, where))
	}
}
