package c25

import (
	"fmt"
	"math/rand"
	"sort"
	"strings"
)

type param struct {
	Name string
	T    T
}

// cond is one generated condition: a template instance with declared parameters.
type cond struct {
	Name   string
	Family string // principal parameter type
	Tmpl   string // template id
	Expr   *E
	Src    string
	Params []param
	Used   map[string]bool
}

func (c *cond) typeOf(n string) T {
	for _, p := range c.Params {
		if p.Name == n {
			return p.T
		}
	}
	panic("no param " + n)
}

func (c *cond) decl() string {
	var p []string
	for _, x := range c.Params {
		p = append(p, x.Name+": "+x.T.String())
	}
	return "(" + strings.Join(p, ", ") + ") { " + c.Src + " }"
}

var scalarKinds = []tkind{tBool, tStr, tInt, tUint, tDbl, tDur, tTs, tIP}
var orderedKinds = []tkind{tStr, tInt, tUint, tDbl, tDur, tTs}

var (
	strPool = []string{"a", "ab", "abc", "b", "", "é", "ba"}
	durPool = []string{"1h", "30m", "1h30m", "-5s", "1.5h", "100ms", "0", "1us", "90m", "2h"}
	tsPool  = []string{"2024-01-02T03:04:05Z", "2024-01-02T03:04:05+02:00", "2024-01-02T01:04:05Z", "2024-06-01T00:00:00Z",
		"2023-12-31T23:59:59.999Z", "1970-01-01T00:00:00Z", "2024-02-29T12:00:00-05:30", "2024-01-02T04:04:05Z"}
	ipPool   = []string{"192.168.0.5", "192.168.1.5", "10.1.2.3", "::ffff:192.168.0.7", "2001:db8::1", "2001:db8:0:0:0:0:0:1", "::1", "192.168.0.200"}
	cidrPool = []string{"192.168.0.0/24", "10.0.0.0/8", "0.0.0.0/0", "192.168.0.5/32", "192.168.0.77/24", "2001:db8::/32", "::/0",
		"::ffff:192.168.0.0/120", "192.168.0.128/25", "::ffff:0.0.0.0/96", "::ffff:192.168.0.0/95", "192.168.0.0/33", "192.168.0.0", "2001:db8::/129"}
)

func pick[X any](r *rand.Rand, xs []X) X { return xs[r.Intn(len(xs))] }

// goodW draws a wire value in a documented form of type t.
func goodW(t T, r *rand.Rand) W {
	switch t.K {
	case tBool:
		return wB(r.Intn(2) == 0)
	case tStr:
		return wS(pick(r, strPool))
	case tInt:
		switch r.Intn(10) {
		case 0:
			return pick(r, []W{wS("7"), wS("-2"), wS("0"), wS("4")})
		case 1:
			return pick(r, []W{wS("9223372036854775807"), wS("-9223372036854775808"), wN(9007199254740992), wS("9007199254740993"), wN(-4611686018427387904)})
		}
		return wN(float64(r.Intn(9) - 3))
	case tUint:
		switch r.Intn(12) {
		case 0:
			return pick(r, []W{wS("3"), wS("0"), wS("5")})
		case 1:
			return pick(r, []W{wS("9223372036854775807"), wN(4294967296), wS("9007199254740993")})
		case 2:
			if r.Intn(3) == 0 { // valid uint values in [2^63, 2^64): a separate defect class
				return pick(r, []W{wS("18446744073709551615"), wS("9223372036854775808"), wN(9223372036854775808)}).edge("uint-high")
			}
		}
		return wN(float64(r.Intn(6)))
	case tDbl:
		switch r.Intn(8) {
		case 0:
			return pick(r, []W{wS("0.5"), wS("10"), wS("-2.25"), wS("3")})
		case 1:
			return pick(r, []W{wN(1e300), wN(0.1), wN(-1e-9)})
		case 2:
			if r.Intn(4) == 0 {
				return pick(r, []W{wS("0.1"), wS("3.14"), wS("1e3"), wS("+2")}) // not judged forms
			}
		}
		return wN(pick(r, []float64{0, 1.5, -2.25, 0.5, 10, 3}))
	case tDur:
		if r.Intn(25) == 0 {
			return wS("2562047h47m16.854775807s")
		}
		return wS(pick(r, durPool))
	case tTs:
		return wS(pick(r, tsPool))
	case tIP:
		return wS(pick(r, ipPool))
	case tList:
		n := r.Intn(4)
		out := W{K: wList, L: []W{}}
		for i := 0; i < n; i++ {
			out.L = append(out.L, goodW(*t.E, r))
		}
		return out
	case tMap:
		out := W{K: wMap, M: map[string]W{}}
		for _, k := range []string{"k", "j", "x"} {
			if r.Intn(3) != 0 {
				out.M[k] = goodW(*t.E, r)
			}
		}
		return out
	case tAny:
		return pick(r, []W{wNullV(), wB(true), wB(false), wN(1.5), wN(2), wS("x"), wS("y"), wL(wN(1.5)), wM(map[string]W{"k": wS("x")})})
	}
	panic("goodW")
}

// badW draws a wire value that is not a value of type t, with a label of the kind of mistake.
// ok=false when the type accepts everything (any).
func badW(t T, r *rand.Rand) (W, string, bool) {
	wrongKind := func(except ...wkind) (W, string) {
		cands := []W{wNullV(), wB(true), wN(5), wS("zz"), wL(), wM(map[string]W{})}
		for {
			w := pick(r, cands)
			skip := false
			for _, k := range except {
				if w.K == k {
					skip = true
				}
			}
			if !skip {
				if w.K == wNull {
					return w, "null"
				}
				return w, "kind:" + w.kindName()
			}
		}
	}
	switch t.K {
	case tAny:
		return W{}, "", false
	case tBool:
		if r.Intn(3) == 0 {
			return wS(pick(r, []string{"true", "false"})), "bool-as-string", true
		}
		w, l := wrongKind(wBool)
		return w, l, true
	case tStr:
		w, l := wrongKind(wStr)
		return w, l, true
	case tInt:
		switch r.Intn(6) {
		case 0:
			return pick(r, []W{wN(5.5), wN(-0.25), wN(1e-3)}), "nonintegral-number", true
		case 1:
			return pick(r, []W{wS("5.5"), wS("-0.5"), wS("1e-3")}), "nonintegral-string", true
		case 2:
			return pick(r, []W{wS("abc"), wS(""), wS("5 "), wS("0x10"), wS("1_0"), wS("five")}), "malformed-string", true
		case 3:
			if r.Intn(2) == 0 {
				return pick(r, []W{wN(1e19), wN(-1e19), wN(9223372036854775808), wS("9223372036854775808"), wS("-9223372036854775809"), wS("18446744073709551616")}).edge("int-range"), "out-of-range", true
			}
			if r.Intn(2) == 0 {
				return pick(r, []W{wS("1.00000000000000000001"), wS("4.00000000000000000001")}).edge("int-frac-precision"), "nonintegral-string-precise", true
			}
		}
		w, l := wrongKind(wNum, wStr)
		return w, l, true
	case tUint:
		switch r.Intn(6) {
		case 0:
			return pick(r, []W{wN(-1), wN(-3), wS("-1"), wS("-4")}), "negative", true
		case 1:
			return pick(r, []W{wN(2.5), wS("2.5"), wN(-2.5)}), "nonintegral", true
		case 2:
			return pick(r, []W{wS("x"), wS(""), wS("3u"), wS("0x3")}), "malformed-string", true
		case 3:
			if r.Intn(2) == 0 {
				return pick(r, []W{wS("18446744073709551616"), wN(18446744073709551616), wN(1e20)}).edge("uint-high"), "out-of-range", true
			}
			if r.Intn(2) == 0 {
				return wS("3.00000000000000000001").edge("int-frac-precision"), "nonintegral-string-precise", true
			}
		}
		w, l := wrongKind(wNum, wStr)
		return w, l, true
	case tDbl:
		if r.Intn(3) == 0 {
			return pick(r, []W{wS("abc"), wS(""), wS("1,5"), wS("1.5.2"), wS("1e400")}), "malformed-string", true
		}
		w, l := wrongKind(wNum, wStr)
		return w, l, true
	case tDur:
		if r.Intn(2) == 0 {
			return wS(pick(r, []string{"1", "1d", "", "1 h", "h", "1hh", "one hour", "9999999999h", "2562047h47m16.854775808s", "-"})), "malformed-string", true
		}
		w, l := wrongKind(wStr)
		return w, l, true
	case tTs:
		if r.Intn(2) == 0 {
			return wS(pick(r, []string{"2024-01-02", "2024-01-02 03:04:05Z", "2024-13-01T00:00:00Z", "2024-02-30T00:00:00Z", "2023-02-29T00:00:00Z",
				"2024-01-02T03:04:05", "2024-01-02T24:00:00Z", "2024-1-2T03:04:05Z", "", "yesterday", "2024-01-02T03:61:05Z", "2024-01-02T03:04:05+0200", "1704164645"})), "malformed-string", true
		}
		w, l := wrongKind(wStr)
		return w, l, true
	case tIP:
		if r.Intn(2) == 0 {
			return wS(pick(r, []string{"192.168.0", "256.1.1.1", "1.2.3.4/24", "", "::g", "1.2.3.4.5", "2001:db8::1::2", " 1.2.3.4", "localhost", "1.2.3.-4", "12345::1", "1:2:3:4:5:6:7:8:9"})), "malformed-string", true
		}
		w, l := wrongKind(wStr)
		return w, l, true
	case tList:
		if r.Intn(2) == 0 && t.E.K != tAny {
			// one mistyped element among good ones
			be, l, ok := badW(*t.E, r)
			if ok {
				n := 1 + r.Intn(3)
				pos := r.Intn(n)
				out := W{K: wList}
				for i := 0; i < n; i++ {
					if i == pos {
						out.L = append(out.L, be)
					} else {
						out.L = append(out.L, goodW(*t.E, r))
					}
				}
				return out, "elem[" + fmt.Sprint(pos) + "/" + fmt.Sprint(n) + "]:" + l, true
			}
		}
		w, l := wrongKind(wList)
		return w, l, true
	case tMap:
		if r.Intn(2) == 0 && t.E.K != tAny {
			be, l, ok := badW(*t.E, r)
			if ok {
				out := W{K: wMap, M: map[string]W{}}
				keys := []string{"k", "j", "x"}
				bk := pick(r, keys)
				for _, k := range keys {
					if k == bk {
						out.M[k] = be
					} else if r.Intn(2) == 0 {
						out.M[k] = goodW(*t.E, r)
					}
				}
				return out, "value:" + l, true
			}
		}
		w, l := wrongKind(wMap)
		return w, l, true
	}
	panic("badW")
}

// litOf draws a literal of scalar type k for use inside an expression.
func litOf(k tkind, r *rand.Rand) *E {
	switch k {
	case tBool:
		return litBool(r.Intn(2) == 0)
	case tStr:
		return litStr(pick(r, strPool))
	case tInt:
		if r.Intn(12) == 0 {
			return litInt(pick(r, []int64{7, 9223372036854775807, -9223372036854775808, 9007199254740993, 9007199254740992}))
		}
		return litInt(int64(r.Intn(9) - 3))
	case tUint:
		if r.Intn(8) == 0 {
			return litUint(pick(r, []uint64{9223372036854775807, 9223372036854775808, 18446744073709551615, 4294967296}))
		}
		return litUint(uint64(r.Intn(6)))
	case tDbl:
		return litDbl(pick(r, []float64{0, 1.5, -2.25, 0.5, 10, 3, 0.1}))
	case tDur:
		s := pick(r, []string{"1h", "30m", "90m", "0s", "-5s", "100ms", "2h"})
		n, st := parseDuration(s)
		if st != cOK {
			panic("dur literal " + s)
		}
		return lit(V{K: vDur, I: n, S: s})
	case tTs:
		s := pick(r, []string{"2024-01-02T01:04:05Z", "2024-06-01T00:00:00Z", "2024-01-02T03:04:05Z", "2023-12-31T23:59:59.999Z"})
		sec, ns, st := parseRFC3339(s)
		if st != cOK {
			panic("ts literal " + s)
		}
		return lit(V{K: vTs, Sec: sec, Ns: ns, S: s})
	case tIP:
		s := pick(r, []string{"192.168.0.5", "2001:db8::1", "10.1.2.3", "192.168.0.7"})
		return lit(V{K: vIP, S: s})
	}
	panic("litOf")
}

type builder struct {
	r     *rand.Rand
	out   []*cond
	seen  map[string]bool
	extra bool
}

func (b *builder) add(family T, tmpl string, e *E, ps ...param) {
	c := &cond{Family: family.String(), Tmpl: tmpl, Expr: e, Src: src(e), Used: map[string]bool{}}
	vars(e, map[string]bool{}, c.Used)
	c.Params = append(c.Params, ps...)
	for _, p := range ps {
		if !c.Used[p.Name] {
			panic("template " + tmpl + " declares unused " + p.Name)
		}
	}
	// declared-but-unused parameter(s)
	switch b.r.Intn(4) {
	case 0, 1:
		c.Params = append(c.Params, param{"unused1", b.anyType()})
	case 2:
		c.Params = append(c.Params, param{"unused1", b.anyType()}, param{"unused2", b.anyType()})
	}
	if len(c.Src) > 500 {
		return
	}
	key := c.decl()
	if b.seen[key] {
		return
	}
	b.seen[key] = true
	c.Name = fmt.Sprintf("c%d", len(b.out))
	b.out = append(b.out, c)
}

func (b *builder) anyType() T {
	r := b.r
	switch r.Intn(8) {
	case 0:
		return listOf(T{K: pick(r, scalarKinds)})
	case 1:
		return mapOf(T{K: pick(r, scalarKinds)})
	case 2:
		return T{K: tAny}
	}
	return T{K: pick(r, scalarKinds)}
}

// buildPool instantiates every template for every type it applies to, reps times with fresh literals.
func buildPool(r *rand.Rand, reps int) []*cond {
	b := &builder{r: r, seen: map[string]bool{}}
	p, q, rr := vr("p"), vr("q"), vr("r")
	for rep := 0; rep < reps; rep++ {
		for _, k := range scalarKinds {
			t := T{K: k}
			b.add(t, "p==LIT", bin("==", p, litOf(k, r)), param{"p", t})
			b.add(t, "p!=q", bin("!=", p, q), param{"p", t}, param{"q", t})
			b.add(t, "p==q", bin("==", p, q), param{"p", t}, param{"q", t})
			if k != tBool {
				b.add(t, "p in [LIT,LIT,q]", bin("in", p, listLit(litOf(k, r), litOf(k, r), q)), param{"p", t}, param{"q", t})
			}
			// list<T> and map<T>
			lt, mt := listOf(t), mapOf(t)
			l, m, x := vr("l"), vr("m"), vr("x")
			b.add(lt, "x in l", bin("in", x, l), param{"x", t}, param{"l", lt})
			b.add(lt, "l.size()==N", bin("==", call("size", l), litInt(int64(r.Intn(4)))), param{"l", lt})
			b.add(lt, "l[I]==x", bin("==", &E{Op: "index", A: []*E{l, litInt(int64(r.Intn(3)))}}, x), param{"x", t}, param{"l", lt})
			b.add(lt, "l.exists(e,e==x)", macro("exists", l, "e", bin("==", vr("e"), x)), param{"x", t}, param{"l", lt})
			b.add(lt, "l.all(e,e!=LIT)", macro("all", l, "e", bin("!=", vr("e"), litOf(k, r))), param{"l", lt})
			b.add(lt, "guard:size>I&&l[I]==x", bin("&&", bin(">", call("size", l), litInt(1)), bin("==", &E{Op: "index", A: []*E{l, litInt(1)}}, x)), param{"x", t}, param{"l", lt})
			b.add(mt, `m["k"]==x`, bin("==", &E{Op: "index", A: []*E{m, litStr("k")}}, x), param{"x", t}, param{"m", mt})
			b.add(mt, `"k" in m`, bin("in", litStr(pick(r, []string{"k", "j", "zz"})), m), param{"m", mt})
			b.add(mt, "m.size()==N", bin("==", call("size", m), litInt(int64(r.Intn(4)))), param{"m", mt})
			b.add(mt, "m.k!=LIT", bin("!=", sel(m, pick(r, []string{"k", "j"})), litOf(k, r)), param{"m", mt})
			b.add(mt, `guard:"k" in m&&m["k"]==x`, bin("&&", bin("in", litStr("k"), m), bin("==", &E{Op: "index", A: []*E{m, litStr("k")}}, x)), param{"x", t}, param{"m", mt})
		}
		for _, k := range orderedKinds {
			t := T{K: k}
			op := pick(r, []string{"<", "<=", ">", ">="})
			b.add(t, "p<q", bin(op, p, q), param{"p", t}, param{"q", t})
			b.add(t, "p<=LIT", bin(pick(r, []string{"<", "<=", ">", ">="}), p, litOf(k, r)), param{"p", t})
			lt := listOf(t)
			b.add(lt, "l.exists(e,e>x)", macro("exists", vr("l"), "e", bin(pick(r, []string{"<", ">", ">="}), vr("e"), vr("x"))), param{"x", t}, param{"l", lt})
		}
		// bool combinations
		tb := T{K: tBool}
		b.add(tb, "p&&(q||!r)", bin("&&", p, bin("||", q, not(rr))), param{"p", tb}, param{"q", tb}, param{"r", tb})
		b.add(tb, "p||q", bin("||", p, q), param{"p", tb}, param{"q", tb})
		b.add(tb, "!p", not(p), param{"p", tb})
		b.add(tb, "p", p, param{"p", tb})
		b.add(tb, "p?q:r", tern(p, q, rr), param{"p", tb}, param{"q", tb}, param{"r", tb})
		b.add(tb, "p==(q&&r)", bin("==", p, bin("&&", q, rr)), param{"p", tb}, param{"q", tb}, param{"r", tb})
		// strings
		ts := T{K: tStr}
		b.add(ts, "p.startsWith(LIT)", call("startsWith", p, litStr(pick(r, []string{"a", "ab", "b", ""}))), param{"p", ts})
		b.add(ts, "p.endsWith(q)", call("endsWith", p, q), param{"p", ts}, param{"q", ts})
		b.add(ts, "p.contains(LIT)", call("contains", p, litStr(pick(r, []string{"b", "a", "é", "c"}))), param{"p", ts})
		b.add(ts, "p.size()==N", bin("==", call("size", p), litInt(int64(r.Intn(4)))), param{"p", ts})
		b.add(ts, "p+q==LIT", bin("==", bin("+", p, q), litStr(pick(r, []string{"ab", "aab", "ba", "a", ""}))), param{"p", ts}, param{"q", ts})
		// arithmetic
		for _, k := range []tkind{tInt, tUint, tDbl} {
			t := T{K: k}
			ops := []string{"+", "-", "*", "/", "%"}
			if k == tDbl {
				ops = []string{"+", "-", "*", "/"}
			}
			op := pick(r, ops)
			b.add(t, "p OP q CMP LIT", bin(pick(r, []string{"==", ">", "<", "!="}), bin(op, p, q), litOf(k, r)), param{"p", t}, param{"q", t})
			if k != tDbl {
				zero := litOf(k, r)
				if k == tInt {
					zero = litInt(0)
				} else {
					zero = litUint(0)
				}
				two := litOf(k, r)
				b.add(t, "short:q==0||p/q==LIT", bin("||", bin("==", q, zero), bin("==", bin("/", p, q), two)), param{"p", t}, param{"q", t})
				b.add(t, "short:p/q==LIT||q==0", bin("||", bin("==", bin("/", p, q), two), bin("==", q, zero)), param{"p", t}, param{"q", t})
				b.add(t, "short:q!=0&&p%q==LIT", bin("&&", bin("!=", q, zero), bin("==", bin("%", p, q), two)), param{"p", t}, param{"q", t})
				b.add(t, "short:q==0?p==LIT:p/q==LIT", tern(bin("==", q, zero), bin("==", p, litOf(k, r)), bin("==", bin("/", p, q), two)), param{"p", t}, param{"q", t})
			}
		}
		// mixed-type short circuit: a bool guard in front of another type's comparison
		for _, k := range scalarKinds {
			t := T{K: k}
			b.add(t, "short:b||p==LIT", bin("||", vr("b"), bin("==", p, litOf(k, r))), param{"b", tb}, param{"p", t})
			b.add(t, "short:b&&p!=LIT", bin("&&", vr("b"), bin("!=", p, litOf(k, r))), param{"b", tb}, param{"p", t})
		}
		// time
		td, tt := T{K: tDur}, T{K: tTs}
		d, tsv, now := vr("d"), vr("ts"), vr("now")
		b.add(tt, "ts+d<now", bin(pick(r, []string{"<", "<=", ">"}), bin("+", tsv, d), now), param{"ts", tt}, param{"d", td}, param{"now", tt})
		b.add(tt, "now-ts>d", bin(pick(r, []string{">", "<", ">="}), bin("-", now, tsv), d), param{"ts", tt}, param{"d", td}, param{"now", tt})
		b.add(tt, "ts-d>=LIT", bin(">=", bin("-", tsv, d), litOf(tTs, r)), param{"ts", tt}, param{"d", td})
		b.add(td, "d+e<=LIT", bin("<=", bin("+", d, vr("e")), litOf(tDur, r)), param{"d", td}, param{"e", td})
		b.add(tt, "ts.getFullYear()==N", bin("==", call("getFullYear", tsv), litInt(pick(r, []int64{2024, 2023, 1970}))), param{"ts", tt})
		b.add(tt, "ts.getHours()==N", bin("==", call("getHours", tsv), litInt(pick(r, []int64{1, 3, 0, 17, 23}))), param{"ts", tt})
		// ip
		ti := T{K: tIP}
		ip := vr("ip")
		b.add(ti, "ip.in_cidr(LIT)", call("in_cidr", ip, litStr(pick(r, cidrPool))), param{"ip", ti})
		b.add(ti, "ip.in_cidr(LIT)&&!ip2.in_cidr(LIT)", bin("&&", call("in_cidr", ip, litStr(pick(r, cidrPool[:11]))), not(call("in_cidr", vr("ip2"), litStr(pick(r, cidrPool[:11]))))), param{"ip", ti}, param{"ip2", ti})
		b.add(ti, "ip.in_cidr(cidr)", call("in_cidr", ip, vr("cidr")), param{"ip", ti}, param{"cidr", ts})
		b.add(listOf(ti), "l[0].in_cidr(LIT)", call("in_cidr", &E{Op: "index", A: []*E{vr("l"), litInt(0)}}, litStr(pick(r, cidrPool[:11]))), param{"l", listOf(ti)})
		// nested generics
		mls := mapOf(listOf(ts))
		b.add(mls, `x in m["k"]`, bin("in", vr("x"), &E{Op: "index", A: []*E{vr("m"), litStr("k")}}), param{"x", ts}, param{"m", mls})
		lli := listOf(listOf(T{K: tInt}))
		b.add(lli, "l[0][I]==x", bin("==", &E{Op: "index", A: []*E{&E{Op: "index", A: []*E{vr("l"), litInt(0)}}, litInt(int64(r.Intn(2)))}}, vr("x")), param{"x", T{K: tInt}}, param{"l", lli})
		mmu := mapOf(mapOf(T{K: tUint}))
		b.add(mmu, "m.k.j==x", bin("==", sel(sel(vr("m"), "k"), "j"), vr("x")), param{"x", T{K: tUint}}, param{"m", mmu})
		// any
		ta := T{K: tAny}
		for _, l := range []*E{litStr("x"), litDbl(1.5), litBool(true), lit(V{K: vNull})} {
			b.add(ta, "a==LIT", bin("==", vr("a"), l), param{"a", ta})
		}
		b.add(ta, "a!=LIT", bin("!=", vr("a"), litStr("x")), param{"a", ta})
		la := listOf(ta)
		b.add(la, "LIT in l(any)", bin("in", pick(r, []*E{litStr("x"), litDbl(1.5), litBool(true)}), vr("l")), param{"l", la})
	}
	return b.out
}

// ---------- contexts ----------

// pshape describes where one parameter's value comes from.
type pshape struct {
	Name  string
	Shape string // R, S, RS=, RS!=, --, Rbad, Sbad, RbadSok, RokSbad, RbadSbad, Rnull, RokSnull
	Label string // kind of mistake for bad values
}

type vcase struct {
	C      *cond
	Req    map[string]W // nil: no request context at all
	Stored map[string]W // nil: tuple condition has no context
	Shapes []pshape
}

var okShapes = []string{"R", "R", "S", "S", "RS=", "RS!=", "RS!=", "RbadSok"}
var failShapes = []string{"--", "--", "--", "Rbad", "Rbad", "Sbad", "RokSbad", "RokSbad", "RbadSbad", "Rnull", "RokSnull"}

func differentGood(t T, r *rand.Rand, from W) (W, bool) {
	for i := 0; i < 12; i++ {
		w := goodW(t, r)
		if w.String() != from.String() {
			return w, true
		}
	}
	return W{}, false
}

func genCase(c *cond, r *rand.Rand) *vcase {
	vc := &vcase{C: c}
	req, stored := map[string]W{}, map[string]W{}
	victims := map[int]bool{}
	if r.Intn(100) < 45 {
		victims[r.Intn(len(c.Params))] = true
		if r.Intn(5) == 0 {
			victims[r.Intn(len(c.Params))] = true
		}
	}
	for i, p := range c.Params {
		shape := pick(r, okShapes)
		if victims[i] {
			shape = pick(r, failShapes)
		}
		good := goodW(p.T, r)
		if p.Name == "cidr" && r.Intn(4) != 0 {
			good = wS(pick(r, cidrPool))
		}
		bad, label, hasBad := badW(p.T, r)
		if !hasBad && strings.Contains(shape, "bad") {
			// `any` accepts everything: fall back to presence shapes
			shape = pick(r, []string{"R", "S", "--", "RS!="})
			label = ""
		}
		switch shape {
		case "R":
			req[p.Name] = good
		case "S":
			stored[p.Name] = good
		case "RS=":
			req[p.Name], stored[p.Name] = good, good
		case "RS!=":
			other, ok := differentGood(p.T, r, good)
			if !ok {
				shape = "RS="
				other = good
			}
			req[p.Name], stored[p.Name] = other, good
		case "--":
		case "Rbad":
			req[p.Name] = bad
		case "Sbad":
			stored[p.Name] = bad
		case "RbadSok":
			req[p.Name], stored[p.Name] = bad, good
		case "RokSbad":
			req[p.Name], stored[p.Name] = good, bad
		case "RbadSbad":
			b2, _, _ := badW(p.T, r)
			req[p.Name], stored[p.Name] = b2, bad
		case "Rnull":
			req[p.Name] = wNullV()
			label = "null"
		case "RokSnull":
			req[p.Name], stored[p.Name] = good, wNullV()
			label = "null"
		}
		if !strings.Contains(shape, "bad") && !strings.Contains(shape, "null") {
			label = ""
		}
		vc.Shapes = append(vc.Shapes, pshape{p.Name, shape, label})
	}
	// fields the condition does not declare (one request context routinely serves several conditions of a
	// model): ignored by the evaluation, and no substitute for a declared parameter that has no value
	if r.Intn(4) == 0 {
		for k := 0; k <= r.Intn(3); k++ {
			name := []string{"request_id", "tenant", "zz_other_condition_param"}[k]
			if _, declared := req[name]; !declared {
				req[name] = []W{wS("abc"), wN(7), wB(true)}[r.Intn(3)]
			}
		}
	}
	vc.Req, vc.Stored = req, stored
	if len(req) == 0 && r.Intn(2) == 0 {
		vc.Req = nil
	}
	if len(stored) == 0 && r.Intn(2) == 0 {
		vc.Stored = nil
	}
	return vc
}

// ---------- the oracle's verdict ----------

type verdict struct {
	Exp string // "T", "F", "E" or "NJ"
	Why string
	// NoT: whatever else is unspecified, the evaluation must not SUCCEED (a declared parameter has no value)
	NoT bool `json:",omitempty"`
}

func merge(first, second map[string]W) map[string]W {
	out := map[string]W{}
	for k, v := range first {
		out[k] = v
	}
	for k, v := range second {
		out[k] = v
	}
	return out
}

// judge computes the expected outcome for condition c over `merged` (the effective context).
func judge(c *cond, merged map[string]W) verdict {
	env := map[string]V{}
	var missing, failed, nj []string
	for _, p := range c.Params {
		w, ok := merged[p.Name]
		if !ok {
			missing = append(missing, p.Name)
			continue
		}
		v, st := convert(p.T, w)
		switch st {
		case cFail:
			failed = append(failed, p.Name)
		case cNJ:
			nj = append(nj, p.Name)
		default:
			env[p.Name] = v
		}
	}
	if len(failed) > 0 {
		return verdict{Exp: "E", Why: "unconvertible:" + strings.Join(failed, ",")}
	}
	if len(nj) > 0 {
		return verdict{Exp: "NJ", Why: "undocumented-wire-form"}
	}
	r := eval(c.Expr, env)
	if r.St == rNJ {
		return verdict{Exp: "NJ", Why: "arithmetic-corner:" + r.Why}
	}
	if len(missing) > 0 {
		if r.St == rOK {
			// the expression is decided without the absent parameter(s) (unused or short-circuited):
			// the statement is read as "a NEEDED missing parameter fails"; this case is only counted
			un := true
			for _, m := range missing {
				if c.Used[m] {
					un = false
				}
			}
			// ... except for the part of the statement that holds on any reading: "rather than succeed"
			if un {
				return verdict{Exp: "NJ", Why: "missing-unused", NoT: true}
			}
			return verdict{Exp: "NJ", Why: "missing-shortcircuited", NoT: true}
		}
		return verdict{Exp: "E", Why: "missing-needed"}
	}
	switch r.St {
	case rOK:
		if r.V.K != vBool {
			return verdict{Exp: "NJ", Why: "non-bool"}
		}
		if r.V.B {
			return verdict{Exp: "T", Why: "true"}
		}
		return verdict{Exp: "F", Why: "false"}
	case rErr:
		return verdict{Exp: "E", Why: "cel-error:" + r.Why}
	}
	return verdict{Exp: "NJ", Why: "unknown"}
}

func (vc *vcase) signature(v verdict) string {
	var parts []string
	for _, s := range vc.Shapes {
		u := "used"
		if !vc.C.Used[s.Name] {
			u = "unused"
		}
		x := u + ":" + s.Shape
		if s.Label != "" {
			l := s.Label
			if i := strings.Index(l, "]"); strings.HasPrefix(l, "elem[") && i > 0 {
				l = "elem:" + l[i+2:]
			}
			x += "(" + l + ")"
		}
		parts = append(parts, x)
	}
	sort.Strings(parts)
	why := v.Why
	if i := strings.Index(why, ":"); i > 0 {
		why = why[:i]
	}
	return vc.C.Family + "|" + vc.C.Tmpl + "|" + strings.Join(parts, ",") + "|" + v.Exp + ":" + why
}
