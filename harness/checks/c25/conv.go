package c25

import (
	"math"
	"math/big"
	"strings"
)

// conversion status of a wire value against a declared type
type cstat int

const (
	cOK   cstat = iota // documented wire form: must convert to exactly this value
	cFail              // not a value of the declared type: evaluation must fail
	cNJ                // form whose acceptance the documentation leaves open: not judged
)

var (
	minInt64 = new(big.Int).Lsh(big.NewInt(-1), 63)
	maxInt64 = new(big.Int).Sub(new(big.Int).Lsh(big.NewInt(1), 63), big.NewInt(1))
	maxUint  = new(big.Int).Sub(new(big.Int).Lsh(big.NewInt(1), 64), big.NewInt(1))
)

func isDigits(s string) bool {
	if s == "" {
		return false
	}
	for i := 0; i < len(s); i++ {
		if s[i] < '0' || s[i] > '9' {
			return false
		}
	}
	return true
}

// decimalSyntax reports whether s is [+-]?(digits[.digits*]|.digits)([eE][+-]?digits)?
func decimalSyntax(s string) bool {
	i := 0
	if i < len(s) && (s[i] == '+' || s[i] == '-') {
		i++
	}
	nd := 0
	for i < len(s) && s[i] >= '0' && s[i] <= '9' {
		i++
		nd++
	}
	if i < len(s) && s[i] == '.' {
		i++
		for i < len(s) && s[i] >= '0' && s[i] <= '9' {
			i++
			nd++
		}
	}
	if nd == 0 {
		return false
	}
	if i < len(s) && (s[i] == 'e' || s[i] == 'E') {
		i++
		if i < len(s) && (s[i] == '+' || s[i] == '-') {
			i++
		}
		ne := 0
		for i < len(s) && s[i] >= '0' && s[i] <= '9' {
			i++
			ne++
		}
		if ne == 0 || ne > 4 {
			return false
		}
	}
	return i == len(s)
}

func looksLikeInfNaN(s string) bool {
	t := strings.ToLower(strings.TrimLeft(s, "+-"))
	return t == "inf" || t == "infinity" || t == "nan"
}

// convInteger converts a wire value to an integer in [lo, hi].
func convInteger(w W, lo, hi *big.Int) (*big.Int, cstat) {
	switch w.K {
	case wNum:
		f := w.N
		if math.IsNaN(f) || math.IsInf(f, 0) || f != math.Trunc(f) {
			return nil, cFail
		}
		bi, _ := new(big.Float).SetFloat64(f).Int(nil)
		if bi.Cmp(lo) < 0 || bi.Cmp(hi) > 0 {
			return nil, cFail
		}
		if f == 0 && math.Signbit(f) {
			return nil, cNJ // -0
		}
		return bi, cOK
	case wStr:
		s := w.S
		canonical := isDigits(s) || (len(s) > 1 && s[0] == '-' && isDigits(s[1:]))
		if canonical {
			bi, _ := new(big.Int).SetString(s, 10)
			if bi.Cmp(lo) < 0 || bi.Cmp(hi) > 0 {
				return nil, cFail
			}
			if bi.Sign() == 0 && s[0] == '-' {
				return nil, cNJ
			}
			if len(s) > 1 && (s[0] == '0' || (s[0] == '-' && s[1] == '0')) {
				return nil, cNJ // leading zeros
			}
			return bi, cOK
		}
		if decimalSyntax(s) {
			r, ok := new(big.Rat).SetString(s)
			if !ok {
				return nil, cNJ
			}
			if !r.IsInt() {
				return nil, cFail // a non-integral number is not an int/uint
			}
			return nil, cNJ // "5.0", "1e3", "+5": integral but not the canonical form
		}
		if looksLikeInfNaN(s) {
			return nil, cFail
		}
		return nil, cFail
	default:
		return nil, cFail
	}
}

func convDouble(w W) (float64, cstat) {
	switch w.K {
	case wNum:
		if math.IsNaN(w.N) || math.IsInf(w.N, 0) {
			return 0, cNJ
		}
		return w.N, cOK
	case wStr:
		s := w.S
		if looksLikeInfNaN(s) {
			return 0, cNJ
		}
		if !decimalSyntax(s) {
			return 0, cFail
		}
		r, ok := new(big.Rat).SetString(s)
		if !ok {
			return 0, cNJ
		}
		f, exact := r.Float64()
		if math.IsInf(f, 0) {
			return 0, cFail // outside the double range
		}
		if !exact {
			return 0, cNJ // would need rounding: the documentation does not say
		}
		if s[0] == '+' || strings.ContainsAny(s, "eE") || strings.HasPrefix(s, ".") || strings.HasSuffix(s, ".") {
			return 0, cNJ
		}
		if f == 0 && s[0] == '-' {
			return 0, cNJ
		}
		return f, cOK
	default:
		return 0, cFail
	}
}

// parseDuration implements the documented Go duration syntax: "a possibly signed sequence of decimal
// numbers, each with optional fraction and a unit suffix"; units ns, us, µs, ms, s, m, h; "0" is valid.
func parseDuration(s string) (int64, cstat) {
	orig := s
	if s == "" {
		return 0, cFail
	}
	neg := false
	if s[0] == '+' || s[0] == '-' {
		neg = s[0] == '-'
		s = s[1:]
	}
	if s == "0" {
		return 0, cOK
	}
	if s == "" {
		return 0, cFail
	}
	units := []struct {
		n string
		v int64
	}{{"ns", 1}, {"us", 1e3}, {"µs", 1e3}, {"μs", 1e3}, {"ms", 1e6}, {"s", 1e9}, {"m", 60e9}, {"h", 3600e9}}
	total := new(big.Rat)
	for s != "" {
		i := 0
		for i < len(s) && s[i] >= '0' && s[i] <= '9' {
			i++
		}
		intPart := s[:i]
		fracPart := ""
		hasDot := false
		if i < len(s) && s[i] == '.' {
			hasDot = true
			j := i + 1
			for j < len(s) && s[j] >= '0' && s[j] <= '9' {
				j++
			}
			fracPart = s[i+1 : j]
			i = j
		}
		if intPart == "" && fracPart == "" {
			return 0, cFail
		}
		_ = hasDot
		s = s[i:]
		// unit: longest run of non-digit, non-dot characters
		j := 0
		for j < len(s) && s[j] != '.' && (s[j] < '0' || s[j] > '9') {
			j++
		}
		u := s[:j]
		s = s[j:]
		var mult int64
		for _, cand := range units {
			if cand.n == u {
				mult = cand.v
			}
		}
		if mult == 0 {
			return 0, cFail
		}
		num := intPart
		if num == "" {
			num = "0"
		}
		if fracPart != "" {
			num += "." + fracPart
		}
		r, ok := new(big.Rat).SetString(num)
		if !ok {
			return 0, cFail
		}
		r.Mul(r, new(big.Rat).SetInt64(mult))
		total.Add(total, r)
	}
	if !total.IsInt() {
		return 0, cNJ // sub-nanosecond fractions: truncation is not documented here
	}
	n := new(big.Int).Set(total.Num())
	if neg {
		n.Neg(n)
	}
	if n.Cmp(minInt64) < 0 || n.Cmp(maxInt64) > 0 {
		return 0, cFail
	}
	if strings.ContainsAny(orig, "μ") || orig[0] == '+' || n.Cmp(minInt64) == 0 {
		return 0, cNJ
	}
	return n.Int64(), cOK
}

func daysFromCivil(y, m, d int64) int64 {
	if m <= 2 {
		y--
	}
	era := y / 400
	if y < 0 && y%400 != 0 {
		era--
	}
	yoe := y - era*400
	mp := (m + 9) % 12
	doy := (153*mp+2)/5 + d - 1
	doe := yoe*365 + yoe/4 - yoe/100 + doy
	return era*146097 + doe - 719468
}

func daysIn(y, m int64) int64 {
	switch m {
	case 4, 6, 9, 11:
		return 30
	case 2:
		if y%4 == 0 && (y%100 != 0 || y%400 == 0) {
			return 29
		}
		return 28
	}
	return 31
}

func num(s string) (int64, bool) {
	if !isDigits(s) {
		return 0, false
	}
	var n int64
	for i := 0; i < len(s); i++ {
		n = n*10 + int64(s[i]-'0')
	}
	return n, true
}

// parseRFC3339 implements RFC 3339 section 5.6 (upper-case T and Z only; seconds 00-59).
func parseRFC3339(s string) (sec, ns int64, st cstat) {
	// YYYY-MM-DDTHH:MM:SS
	if len(s) < 20 {
		return 0, 0, cFail
	}
	if s[4] != '-' || s[7] != '-' || s[13] != ':' || s[16] != ':' {
		return 0, 0, cFail
	}
	if s[10] != 'T' {
		if s[10] == 't' {
			return 0, 0, cNJ
		}
		return 0, 0, cFail
	}
	y, ok1 := num(s[0:4])
	mo, ok2 := num(s[5:7])
	d, ok3 := num(s[8:10])
	h, ok4 := num(s[11:13])
	mi, ok5 := num(s[14:16])
	se, ok6 := num(s[17:19])
	if !(ok1 && ok2 && ok3 && ok4 && ok5 && ok6) {
		return 0, 0, cFail
	}
	rest := s[19:]
	if rest != "" && rest[0] == ',' {
		return 0, 0, cNJ
	}
	if rest != "" && rest[0] == '.' {
		j := 1
		for j < len(rest) && rest[j] >= '0' && rest[j] <= '9' {
			j++
		}
		frac := rest[1:j]
		if frac == "" {
			return 0, 0, cFail
		}
		if len(frac) > 9 {
			return 0, 0, cNJ
		}
		f, _ := num(frac)
		for k := len(frac); k < 9; k++ {
			f *= 10
		}
		ns = f
		rest = rest[j:]
	}
	var off int64
	switch {
	case rest == "Z":
	case rest == "z":
		return 0, 0, cNJ
	case len(rest) == 6 && (rest[0] == '+' || rest[0] == '-') && rest[3] == ':':
		oh, oka := num(rest[1:3])
		om, okb := num(rest[4:6])
		if !oka || !okb {
			return 0, 0, cFail
		}
		if oh > 23 || om > 59 {
			return 0, 0, cNJ // Go's parser is known to be lenient here; RFC says 00-23 / 00-59
		}
		off = oh*3600 + om*60
		if rest[0] == '-' {
			off = -off
		}
	default:
		return 0, 0, cFail
	}
	if mo < 1 || mo > 12 || d < 1 || d > daysIn(y, mo) || h > 23 || mi > 59 {
		return 0, 0, cFail
	}
	if se > 59 {
		if se == 60 {
			return 0, 0, cNJ
		}
		return 0, 0, cFail
	}
	if y < 1 {
		return 0, 0, cNJ
	}
	sec = daysFromCivil(y, mo, d)*86400 + h*3600 + mi*60 + se - off
	return sec, ns, cOK
}

func parseIPv4(s string) (b [4]byte, st cstat) {
	parts := strings.Split(s, ".")
	if len(parts) != 4 {
		return b, cFail
	}
	lead := false
	for i, p := range parts {
		if !isDigits(p) || len(p) > 3 {
			return b, cFail
		}
		n, _ := num(p)
		if n > 255 {
			return b, cFail
		}
		if len(p) > 1 && p[0] == '0' {
			lead = true
		}
		b[i] = byte(n)
	}
	if lead {
		return b, cNJ // leading zeros: historically ambiguous (octal)
	}
	return b, cOK
}

func hexGroup(p string) (uint16, bool) {
	if len(p) < 1 || len(p) > 4 {
		return 0, false
	}
	var n uint16
	for i := 0; i < len(p); i++ {
		c := p[i]
		var d byte
		switch {
		case c >= '0' && c <= '9':
			d = c - '0'
		case c >= 'a' && c <= 'f':
			d = c - 'a' + 10
		case c >= 'A' && c <= 'F':
			d = c - 'A' + 10
		default:
			return 0, false
		}
		n = n<<4 | uint16(d)
	}
	return n, true
}

// parseIP parses a textual IPv4 or IPv6 address (RFC 4291 section 2.2 forms, no zone).
// IPv4-mapped IPv6 addresses are returned as IPv4 (documented in ipaddress.go: "Unmap so an IPv4-mapped
// IPv6 address matches an IPv4 CIDR").
func parseIP(s string) (ip [16]byte, is4 bool, st cstat) {
	if strings.Contains(s, "%") {
		return ip, false, cNJ
	}
	if !strings.Contains(s, ":") {
		b, st := parseIPv4(s)
		if st != cOK {
			return ip, false, st
		}
		copy(ip[12:], b[:])
		ip[10], ip[11] = 0xff, 0xff
		return ip, true, cOK
	}
	// IPv6
	var head, tail []string
	dc := strings.Count(s, "::")
	if dc > 1 || strings.Contains(s, ":::") {
		return ip, false, cFail
	}
	split := func(x string) []string {
		if x == "" {
			return nil
		}
		return strings.Split(x, ":")
	}
	if dc == 1 {
		i := strings.Index(s, "::")
		head, tail = split(s[:i]), split(s[i+2:])
	} else {
		head = split(s)
	}
	var groups []uint16
	parse := func(ps []string, last bool) ([]uint16, cstat) {
		var out []uint16
		for i, p := range ps {
			if last && i == len(ps)-1 && strings.Contains(p, ".") {
				b, st := parseIPv4(p)
				if st != cOK {
					return nil, st
				}
				out = append(out, uint16(b[0])<<8|uint16(b[1]), uint16(b[2])<<8|uint16(b[3]))
				continue
			}
			g, ok := hexGroup(p)
			if !ok {
				return nil, cFail
			}
			out = append(out, g)
		}
		return out, cOK
	}
	hg, st1 := parse(head, dc == 0)
	if st1 != cOK {
		return ip, false, st1
	}
	tg, st2 := parse(tail, true)
	if st2 != cOK {
		return ip, false, st2
	}
	if dc == 1 {
		if len(hg)+len(tg) > 7 {
			return ip, false, cFail
		}
		groups = append(groups, hg...)
		for i := 0; i < 8-len(hg)-len(tg); i++ {
			groups = append(groups, 0)
		}
		groups = append(groups, tg...)
	} else {
		if len(hg) != 8 {
			return ip, false, cFail
		}
		groups = hg
	}
	for i, g := range groups {
		ip[2*i], ip[2*i+1] = byte(g>>8), byte(g)
	}
	mapped := true
	for i := 0; i < 10; i++ {
		if ip[i] != 0 {
			mapped = false
		}
	}
	if mapped && ip[10] == 0xff && ip[11] == 0xff {
		return ip, true, cOK
	}
	return ip, false, cOK
}

// parseCIDR parses "addr/bits". ok=false: malformed (evaluation error).
func parseCIDR(s string) (ip [16]byte, is4 bool, bits int, ok bool) {
	i := strings.LastIndex(s, "/")
	if i < 0 {
		return ip, false, 0, false
	}
	bs := s[i+1:]
	if !isDigits(bs) || len(bs) > 3 || (len(bs) > 1 && bs[0] == '0') {
		return ip, false, 0, false
	}
	n, _ := num(bs)
	addr, a4, st := parseIP(s[:i])
	if st != cOK {
		return ip, false, 0, false
	}
	if a4 && !strings.Contains(s[:i], ":") {
		if n > 32 {
			return ip, false, 0, false
		}
		return addr, true, int(n), true
	}
	if n > 128 {
		return ip, false, 0, false
	}
	if a4 { // IPv4-mapped prefix, documented: "Unmap the CIDR too so an IPv4-mapped IPv6 CIDR matches the unmapped address"
		if n >= 96 {
			return addr, true, int(n) - 96, true
		}
		// a mapped network shorter than /96: compare as IPv6
		return addr, false, int(n), true
	}
	return addr, false, int(n), true
}

func cidrContains(net [16]byte, net4 bool, bits int, ip [16]byte, ip4 bool) bool {
	if net4 != ip4 {
		return false
	}
	start := 0
	if net4 {
		start = 96
	}
	for i := 0; i < bits; i++ {
		bit := start + i
		m := byte(0x80) >> (bit % 8)
		if net[bit/8]&m != ip[bit/8]&m {
			return false
		}
	}
	return true
}

// convert is the oracle's conversion of a wire value to the declared parameter type.
func convert(t T, w W) (V, cstat) {
	switch t.K {
	case tAny:
		return dyn(w), cOK
	case tBool:
		if w.K == wBool {
			return V{K: vBool, B: w.B}, cOK
		}
		return V{}, cFail
	case tStr:
		if w.K == wStr {
			return V{K: vStr, S: w.S}, cOK
		}
		return V{}, cFail
	case tInt:
		bi, st := convInteger(w, minInt64, maxInt64)
		if st != cOK {
			return V{}, st
		}
		return V{K: vInt, I: bi.Int64()}, cOK
	case tUint:
		bi, st := convInteger(w, big.NewInt(0), maxUint)
		if st != cOK {
			return V{}, st
		}
		return V{K: vUint, U: bi.Uint64()}, cOK
	case tDbl:
		f, st := convDouble(w)
		if st != cOK {
			return V{}, st
		}
		return V{K: vDbl, F: f}, cOK
	case tDur:
		if w.K != wStr {
			return V{}, cFail
		}
		n, st := parseDuration(w.S)
		if st != cOK {
			return V{}, st
		}
		return V{K: vDur, I: n, S: w.S}, cOK
	case tTs:
		if w.K != wStr {
			return V{}, cFail
		}
		sec, ns, st := parseRFC3339(w.S)
		if st != cOK {
			return V{}, st
		}
		return V{K: vTs, Sec: sec, Ns: ns, S: w.S}, cOK
	case tIP:
		if w.K != wStr {
			return V{}, cFail
		}
		ip, is4, st := parseIP(w.S)
		if st != cOK {
			return V{}, st
		}
		return V{K: vIP, IP: ip, Is4: is4, S: w.S}, cOK
	case tList:
		if w.K != wList {
			return V{}, cFail
		}
		out := V{K: vList}
		worst := cOK
		for _, e := range w.L {
			ev, st := convert(*t.E, e)
			if st == cFail {
				return V{}, cFail
			}
			if st == cNJ {
				worst = cNJ
			}
			out.L = append(out.L, ev)
		}
		return out, worst
	case tMap:
		if w.K != wMap {
			return V{}, cFail
		}
		out := V{K: vMap, M: map[string]V{}}
		worst := cOK
		for k, e := range w.M {
			ev, st := convert(*t.E, e)
			if st == cFail {
				return V{}, cFail
			}
			if st == cNJ {
				worst = cNJ
			}
			out.M[k] = ev
		}
		return out, worst
	}
	return V{}, cNJ
}

// dyn is the dynamic (type any) view of a JSON value: null, bool, double, string, list, map.
func dyn(w W) V {
	switch w.K {
	case wNull:
		return V{K: vNull}
	case wBool:
		return V{K: vBool, B: w.B}
	case wNum:
		return V{K: vDbl, F: w.N}
	case wStr:
		return V{K: vStr, S: w.S}
	case wList:
		out := V{K: vList}
		for _, e := range w.L {
			out.L = append(out.L, dyn(e))
		}
		return out
	default:
		out := V{K: vMap, M: map[string]V{}}
		for k, e := range w.M {
			out.M[k] = dyn(e)
		}
		return out
	}
}
