// Package c25 checks property C25: condition evaluation follows the declared CEL semantics.
//
// The oracle (wire.go, conv.go, expr.go) is written from the documentation and the CEL language
// definition; it does not import cel-go nor any openfga package. Only drive.go / e2e.go touch the
// code under test.
package c25

import (
	"fmt"
	"sort"
	"strconv"
	"strings"
)

// ---------- declared parameter types ----------

type tkind int

const (
	tBool tkind = iota
	tStr
	tInt
	tUint
	tDbl
	tDur
	tTs
	tIP
	tList
	tMap
	tAny
)

// T is a declared condition parameter type.
type T struct {
	K tkind
	E *T // element type for list / map
}

var tnames = map[tkind]string{tBool: "bool", tStr: "string", tInt: "int", tUint: "uint", tDbl: "double",
	tDur: "duration", tTs: "timestamp", tIP: "ipaddress", tList: "list", tMap: "map", tAny: "any"}

func (t T) String() string {
	if t.K == tList || t.K == tMap {
		return tnames[t.K] + "<" + t.E.String() + ">"
	}
	return tnames[t.K]
}

func listOf(e T) T { return T{K: tList, E: &e} }
func mapOf(e T) T  { return T{K: tMap, E: &e} }

// ---------- wire values (what a JSON / structpb context can carry) ----------

type wkind int

const (
	wNull wkind = iota
	wBool
	wNum
	wStr
	wList
	wMap
)

// W is a context value as sent on the wire.
type W struct {
	K    wkind
	B    bool
	N    float64
	S    string
	L    []W
	M    map[string]W
	Edge string // generator tag for boundary values that belong to a specific (possibly known) defect class
}

func wN(f float64) W       { return W{K: wNum, N: f} }
func wS(s string) W        { return W{K: wStr, S: s} }
func wB(b bool) W          { return W{K: wBool, B: b} }
func wNullV() W            { return W{K: wNull} }
func wL(v ...W) W          { return W{K: wList, L: v} }
func wM(m map[string]W) W  { return W{K: wMap, M: m} }
func (w W) edge(e string) W { w.Edge = e; return w }

func (w W) String() string {
	switch w.K {
	case wNull:
		return "null"
	case wBool:
		return strconv.FormatBool(w.B)
	case wNum:
		return strconv.FormatFloat(w.N, 'g', -1, 64)
	case wStr:
		return strconv.Quote(w.S)
	case wList:
		var p []string
		for _, e := range w.L {
			p = append(p, e.String())
		}
		return "[" + strings.Join(p, ",") + "]"
	default:
		var ks []string
		for k := range w.M {
			ks = append(ks, k)
		}
		sort.Strings(ks)
		var p []string
		for _, k := range ks {
			p = append(p, strconv.Quote(k)+":"+w.M[k].String())
		}
		return "{" + strings.Join(p, ",") + "}"
	}
}

func (w W) kindName() string {
	return [...]string{"null", "bool", "number", "string", "list", "map"}[w.K]
}

// edges collects the Edge tags found anywhere inside w.
func (w W) edges(into map[string]bool) {
	if w.Edge != "" {
		into[w.Edge] = true
	}
	for _, e := range w.L {
		e.edges(into)
	}
	for _, e := range w.M {
		e.edges(into)
	}
}

func ctxString(m map[string]W) string {
	if m == nil {
		return "<nil>"
	}
	return wM(m).String()
}

// ---------- typed values (what the expression sees) ----------

type vkind int

const (
	vBool vkind = iota
	vStr
	vInt
	vUint
	vDbl
	vDur
	vTs
	vIP
	vList
	vMap
	vNull
)

// V is a typed value. Durations are nanoseconds in I; timestamps are (Sec, Ns) since the Unix epoch;
// IP addresses are 16 bytes plus the is-IPv4 flag (IPv4-mapped IPv6 addresses are stored unmapped).
type V struct {
	K   vkind
	B   bool
	S   string // string value; for duration/timestamp/ip literals also the source text
	I   int64
	U   uint64
	F   float64
	Sec int64
	Ns  int64
	IP  [16]byte
	Is4 bool
	L   []V
	M   map[string]V
}

func (v V) String() string {
	switch v.K {
	case vBool:
		return strconv.FormatBool(v.B)
	case vStr:
		return strconv.Quote(v.S)
	case vInt:
		return strconv.FormatInt(v.I, 10)
	case vUint:
		return strconv.FormatUint(v.U, 10) + "u"
	case vDbl:
		return strconv.FormatFloat(v.F, 'g', -1, 64)
	case vDur:
		return fmt.Sprintf("dur(%dns)", v.I)
	case vTs:
		return fmt.Sprintf("ts(%d.%09d)", v.Sec, v.Ns)
	case vIP:
		return fmt.Sprintf("ip(%x,v4=%v)", v.IP, v.Is4)
	case vNull:
		return "null"
	case vList:
		var p []string
		for _, e := range v.L {
			p = append(p, e.String())
		}
		return "[" + strings.Join(p, ",") + "]"
	default:
		var ks []string
		for k := range v.M {
			ks = append(ks, k)
		}
		sort.Strings(ks)
		var p []string
		for _, k := range ks {
			p = append(p, k+":"+v.M[k].String())
		}
		return "{" + strings.Join(p, ",") + "}"
	}
}
