package c25

import (
	"context"
	"encoding/json"
	"fmt"
	"math/rand"
	"os"
	"runtime/debug"
	"strings"

	openfgav1 "github.com/openfga/api/proto/openfga/v1"
	"google.golang.org/protobuf/types/known/structpb"

	"github.com/openfga/openfga/internal/condition"
	condeval "github.com/openfga/openfga/internal/condition/eval"
	"github.com/openfga/openfga/pkg/typesystem"
	"github.com/openfga/openfga/verifharness/vk"
)

func init() { vk.Register("C25", "exploration", run) }

const chunkSize = 25 // conditions per authorization model

// ---------- building the real objects ----------

func tref(t T) *openfgav1.ConditionParamTypeRef {
	names := map[tkind]openfgav1.ConditionParamTypeRef_TypeName{
		tBool: openfgav1.ConditionParamTypeRef_TYPE_NAME_BOOL, tStr: openfgav1.ConditionParamTypeRef_TYPE_NAME_STRING,
		tInt: openfgav1.ConditionParamTypeRef_TYPE_NAME_INT, tUint: openfgav1.ConditionParamTypeRef_TYPE_NAME_UINT,
		tDbl: openfgav1.ConditionParamTypeRef_TYPE_NAME_DOUBLE, tDur: openfgav1.ConditionParamTypeRef_TYPE_NAME_DURATION,
		tTs: openfgav1.ConditionParamTypeRef_TYPE_NAME_TIMESTAMP, tIP: openfgav1.ConditionParamTypeRef_TYPE_NAME_IPADDRESS,
		tList: openfgav1.ConditionParamTypeRef_TYPE_NAME_LIST, tMap: openfgav1.ConditionParamTypeRef_TYPE_NAME_MAP,
		tAny: openfgav1.ConditionParamTypeRef_TYPE_NAME_ANY,
	}
	out := &openfgav1.ConditionParamTypeRef{TypeName: names[t.K]}
	if t.E != nil {
		out.GenericTypes = []*openfgav1.ConditionParamTypeRef{tref(*t.E)}
	}
	return out
}

func (c *cond) proto() *openfgav1.Condition {
	ps := map[string]*openfgav1.ConditionParamTypeRef{}
	for _, p := range c.Params {
		ps[p.Name] = tref(p.T)
	}
	return &openfgav1.Condition{Name: c.Name, Expression: c.Src, Parameters: ps}
}

func wpb(w W) *structpb.Value {
	switch w.K {
	case wNull:
		return structpb.NewNullValue()
	case wBool:
		return structpb.NewBoolValue(w.B)
	case wNum:
		return structpb.NewNumberValue(w.N)
	case wStr:
		return structpb.NewStringValue(w.S)
	case wList:
		lv := &structpb.ListValue{}
		for _, e := range w.L {
			lv.Values = append(lv.Values, wpb(e))
		}
		return structpb.NewListValue(lv)
	default:
		return structpb.NewStructValue(ctxpb(w.M))
	}
}

func ctxpb(m map[string]W) *structpb.Struct {
	if m == nil {
		return nil
	}
	s := &structpb.Struct{Fields: map[string]*structpb.Value{}}
	for k, v := range m {
		s.Fields[k] = wpb(v)
	}
	return s
}

func relName(i int) string { return fmt.Sprintf("r%d", i) }

// buildModel makes one authorization model holding conds[lo:hi], relation r<i>: [user with c<i>].
func buildModel(conds []*cond, lo, hi int) *openfgav1.AuthorizationModel {
	rels := map[string]*openfgav1.Userset{}
	meta := map[string]*openfgav1.RelationMetadata{}
	cs := map[string]*openfgav1.Condition{}
	for i := lo; i < hi; i++ {
		rels[relName(i)] = &openfgav1.Userset{Userset: &openfgav1.Userset_This{This: &openfgav1.DirectUserset{}}}
		meta[relName(i)] = &openfgav1.RelationMetadata{DirectlyRelatedUserTypes: []*openfgav1.RelationReference{{Type: "user", Condition: conds[i].Name}}}
		cs[conds[i].Name] = conds[i].proto()
	}
	return &openfgav1.AuthorizationModel{
		SchemaVersion: typesystem.SchemaVersion1_1,
		TypeDefinitions: []*openfgav1.TypeDefinition{
			{Type: "user"},
			{Type: "doc", Relations: rels, Metadata: &openfgav1.Metadata{Relations: meta}},
		},
		Conditions: cs,
	}
}

type realCond struct {
	plain *condition.EvaluableCondition // condition.NewCompiled, no options
	prod  *condition.EvaluableCondition // as built by typesystem.New (cost tracking, cost limit, optimizer)
}

// ---------- observing the real evaluation ----------

type outcome struct {
	Res string // T, F, E, P (panic)
	Err string
}

func observe(ec *condition.EvaluableCondition, vc *vcase, idx int) (out outcome) {
	defer func() {
		if r := recover(); r != nil {
			out = outcome{"P", fmt.Sprintf("panic: %v\n%s", r, debug.Stack())}
		}
	}()
	tk := &openfgav1.TupleKey{Object: "doc:1", Relation: relName(idx), User: "user:a",
		Condition: &openfgav1.RelationshipCondition{Name: vc.C.Name, Context: ctxpb(vc.Stored)}}
	ok, err := condeval.EvaluateTupleCondition(context.Background(), tk, ec, ctxpb(vc.Req))
	switch {
	case err != nil && ok:
		return outcome{"T", "error AND condition met: " + err.Error()}
	case err != nil:
		return outcome{"E", err.Error()}
	case ok:
		return outcome{"T", ""}
	}
	return outcome{"F", ""}
}

// findingFor maps a discrepancy to the identifier of the specific defect class it belongs to, using the
// boundary tags of the values in the EFFECTIVE context; "" = no known class.
func findingFor(eff map[string]W, exp verdict, got outcome) string {
	tags := map[string]bool{}
	for _, w := range eff {
		w.edges(tags)
	}
	accepted := exp.Exp == "E" && strings.HasPrefix(exp.Why, "unconvertible") && (got.Res == "T" || got.Res == "F")
	switch {
	case tags["int-frac-precision"] && accepted:
		return "C25-int-frac-precision"
	case tags["int-range"] && accepted:
		return "C25-int-range-clamp"
	case tags["uint-high"] && (got.Res == "T" || got.Res == "F"):
		// the value silently became 2^63-1: a wrong truth value, or an overflow/underflow error that did not happen
		return "C25-uint-high-clamp"
	}
	return ""
}

type witness struct {
	Phase     string         `json:"phase"`
	CaseIndex int            `json:"case_index"`
	Condition string         `json:"condition"`
	Request   any            `json:"request_context"`
	Stored    any            `json:"stored_context"`
	Effective string         `json:"effective_context_stored_wins"`
	Shapes    []pshape       `json:"shapes"`
	Expected  verdict        `json:"expected"`
	Observed  map[string]any `json:"observed"`
}

func wany(w W) any {
	switch w.K {
	case wNull:
		return nil
	case wBool:
		return w.B
	case wNum:
		return w.N
	case wStr:
		return w.S
	case wList:
		out := []any{}
		for _, e := range w.L {
			out = append(out, wany(e))
		}
		return out
	default:
		return cany(w.M)
	}
}

func cany(m map[string]W) any {
	if m == nil {
		return nil
	}
	out := map[string]any{}
	for k, v := range m {
		out[k] = wany(v)
	}
	return out
}

func mkWitness(phase string, i int, vc *vcase, exp verdict, obs map[string]any) witness {
	return witness{Phase: phase, CaseIndex: i, Condition: "condition " + vc.C.Name + vc.C.decl(),
		Request: cany(vc.Req), Stored: cany(vc.Stored), Effective: ctxString(merge(vc.Req, vc.Stored)),
		Shapes: vc.Shapes, Expected: exp, Observed: obs}
}

// agree reports whether an observed outcome satisfies the verdict.
func agree(exp verdict, got outcome) bool {
	if got.Res == "P" {
		return false
	}
	if got.Res == "T" && got.Err != "" {
		return false
	}
	if exp.Exp == "NJ" {
		return !(exp.NoT && got.Res == "T")
	}
	return exp.Exp == got.Res
}

func describe(exp verdict, got outcome, where string) string {
	switch {
	case got.Res == "P":
		return where + ": evaluation panicked"
	case exp.NoT && got.Res == "T":
		return where + ": a declared parameter has no value in either context (the expression happens to be decidable without it), yet the condition was reported MET: a missing parameter must make the evaluation fail rather than succeed"
	case exp.Exp == "E" && got.Res == "T" && exp.Why == "missing-needed":
		return where + ": a parameter the expression needs is absent from both contexts, yet the condition was reported MET"
	case exp.Exp == "E" && exp.Why == "missing-needed":
		return where + ": a parameter the expression needs is absent, yet the evaluation did not fail (returned " + got.Res + ")"
	case exp.Exp == "E" && strings.HasPrefix(exp.Why, "unconvertible"):
		return where + ": a value that is not of the declared parameter type (" + exp.Why + ") did not make the evaluation fail (returned " + got.Res + ")"
	case exp.Exp == "E":
		return where + ": the expression has a CEL evaluation error (" + exp.Why + ") but " + got.Res + " was returned"
	case got.Res == "E":
		return where + ": all parameters present and convertible, expression is " + exp.Exp + ", but evaluation failed: " + got.Err
	}
	return where + ": expression evaluates to " + exp.Exp + " over the merged context (stored wins) but " + got.Res + " was returned"
}

func caseRand(base int64, i int) *rand.Rand {
	return rand.New(rand.NewSource(base ^ (int64(i)+1)*0x5851F42D4C957F2D))
}

type replayDoc struct {
	Witness witness `json:"witness"`
}

func run(c *vk.Ctx) {
	c.SetRule("Conditions: every template (comparison with literal/parameter, in, list/map access and macros, boolean combinations, " +
		"string functions, arithmetic with CEL overflow/division errors, error-absorbing ||/&&/?:, duration/timestamp arithmetic and accessors, " +
		"in_cidr, nested generics, any) instantiated for every parameter type it applies to, with 0-2 declared-but-unused parameters. " +
		"Contexts: per parameter one of request-only / stored-only / both-equal / both-conflicting / absent / mistyped in request / mistyped in stored / " +
		"mistyped request overridden by valid stored / valid request overridden by mistyped stored / null. " +
		"A case is non-trivial when the oracle judges it (T, F or E); its signature is (principal type | template | sorted per-parameter " +
		"(used/unused, shape, kind of mistake) | expected outcome and reason).")
	c.Assume("The oracle's evaluator implements the CEL language definition for the template family only (own parsers for RFC 3339, Go duration syntax, IPv4/IPv6/CIDR); it was written without cel-go.")
	c.Assume("Documented wire forms: bool/string as such; int/uint as integral JSON number or canonical decimal string; double as JSON number or exactly representable plain decimal string; duration as Go duration string; timestamp as RFC 3339; ipaddress as textual IPv4/IPv6; list/map of those. Other forms (\"5.0\", \"1e3\", \"+5\", \"0.1\" for double, leading zeros, lower-case t/z, zone ids) are not judged.")
	c.Assume("Absent parameters that the expression does not need (unused, or short-circuited away under CEL's commutative ||/&&): only 'the condition is not reported met' is judged; whether the outcome is an error or 'not met' is counted.")

	reps := c.Pick(2, 5)
	pool := buildPool(c.Rand("pool"), reps)
	c.Extra("conditions_in_pool", len(pool))
	c.Logf("pool of %d conditions", len(pool))

	// real objects
	reals := make([]realCond, len(pool))
	var models []*openfgav1.AuthorizationModel
	for lo := 0; lo < len(pool); lo += chunkSize {
		hi := lo + chunkSize
		if hi > len(pool) {
			hi = len(pool)
		}
		m := buildModel(pool, lo, hi)
		ts, err := typesystem.NewAndValidate(context.Background(), m)
		if err != nil {
			// find the culprit for the message
			for i := lo; i < hi; i++ {
				if _, e2 := condition.NewCompiled(pool[i].proto()); e2 != nil {
					c.HarnessError("template %q does not compile: %s: %v", pool[i].Tmpl, pool[i].decl(), e2)
					return
				}
			}
			c.HarnessError("model for conditions %d..%d rejected: %v", lo, hi, err)
			return
		}
		models = append(models, m)
		for i := lo; i < hi; i++ {
			pc, err := condition.NewCompiled(pool[i].proto())
			if err != nil {
				c.HarnessError("template %q does not compile: %s: %v", pool[i].Tmpl, pool[i].decl(), err)
				return
			}
			prod, ok := ts.GetCondition(pool[i].Name)
			if !ok {
				c.HarnessError("typesystem lost condition %s", pool[i].Name)
				return
			}
			reals[i] = realCond{plain: pc, prod: prod}
		}
	}

	// replay of one witness
	if c.Replay != "" {
		b, err := os.ReadFile(c.Replay)
		var doc replayDoc
		if err != nil || json.Unmarshal(b, &doc) != nil {
			c.HarnessError("cannot read replay file %s", c.Replay)
			return
		}
		if doc.Witness.Phase == "unit" {
			unitCase(c, pool, reals, c.SubSeed("unit"), doc.Witness.CaseIndex, true)
		} else {
			e := newE2E(c, pool, models)
			if e == nil {
				return
			}
			defer e.close()
			e.one(c, c.SubSeed("e2e"), doc.Witness.CaseIndex, true)
		}
		return
	}

	nUnit := c.Pick(60000, 1500000)
	base := c.SubSeed("unit")
	for i := 0; i < nUnit; i++ {
		unitCase(c, pool, reals, base, i, false)
		if i > 0 && i%250000 == 0 {
			c.Logf("unit: %d cases", i)
		}
	}
	c.Logf("unit phase done: %d cases", nUnit)

	e := newE2E(c, pool, models)
	if e == nil {
		return
	}
	defer e.close()
	nE2E := c.Pick(6000, 120000)
	ebase := c.SubSeed("e2e")
	for i := 0; i < nE2E; i++ {
		e.one(c, ebase, i, false)
		if i > 0 && i%20000 == 0 {
			c.Logf("e2e: %d cases", i)
		}
	}
	c.Logf("e2e phase done: %d cases", nE2E)

	// coverage sanity: every parameter type must have been judged with every outcome
	for _, k := range []string{"T", "F", "E"} {
		if c.Counter("unit_expected_"+k) == 0 || c.Counter("e2e_expected_"+k) == 0 {
			c.HarnessError("no case with expected outcome %s was generated", k)
		}
	}
	if c.Counter("conflict_discriminating") == 0 {
		c.HarnessError("no request/stored conflict was discriminating")
	}
}

// makeCase draws case i; conflicts (RS!=) are re-drawn a few times until the request value would have changed the outcome.
func makeCase(pool []*cond, base int64, i int) (*vcase, verdict, bool) {
	r := caseRand(base, i)
	cd := pool[r.Intn(len(pool))]
	var vc *vcase
	var exp verdict
	discr := false
	for try := 0; try < 6; try++ {
		vc = genCase(cd, r)
		exp = judge(cd, merge(vc.Req, vc.Stored))
		hasConflict := false
		for _, s := range vc.Shapes {
			if s.Shape == "RS!=" || s.Shape == "RbadSok" || s.Shape == "RokSbad" || s.Shape == "RokSnull" {
				hasConflict = true
			}
		}
		if !hasConflict {
			break
		}
		alt := judge(cd, merge(vc.Stored, vc.Req)) // the WRONG merge order
		if alt.Exp != exp.Exp && alt.Exp != "NJ" && exp.Exp != "NJ" {
			discr = true
			break
		}
		if try >= 2 && r.Intn(2) == 0 {
			break
		}
	}
	return vc, exp, discr
}

func condIndex(cd *cond) int {
	var i int
	fmt.Sscanf(cd.Name, "c%d", &i)
	return i
}

func account(c *vk.Ctx, phase string, vc *vcase, exp verdict, discr bool) {
	c.Count(phase+"_expected_"+exp.Exp, 1)
	why := exp.Why
	if j := strings.Index(why, ":"); j > 0 {
		why = why[:j]
	}
	c.Count(phase+"_reason_"+why, 1)
	c.Seen(phase+"_families_"+exp.Exp, vc.C.Family)
	c.Seen(phase+"_templates", vc.C.Family+"|"+vc.C.Tmpl)
	if discr {
		c.Count("conflict_discriminating", 1)
		c.Seen("conflict_discriminating_families", vc.C.Family)
	}
	for _, s := range vc.Shapes {
		c.Seen(phase+"_shapes", s.Shape)
		if s.Label != "" {
			c.Seen(phase+"_mistakes", vc.C.typeOf(s.Name).String()+":"+s.Label)
		}
	}
}

func unitCase(c *vk.Ctx, pool []*cond, reals []realCond, base int64, i int, verbose bool) {
	vc, exp, discr := makeCase(pool, base, i)
	idx := condIndex(vc.C)
	gotPlain := observe(reals[idx].plain, vc, idx)
	gotProd := observe(reals[idx].prod, vc, idx)
	sig := vc.signature(exp)
	c.Case(sig, exp.Exp != "NJ")
	account(c, "unit", vc, exp, discr)
	if exp.Exp == "NJ" {
		c.Count("unit_notjudged_"+exp.Why+"_observed_"+gotProd.Res, 1)
	}
	if gotPlain.Res != gotProd.Res {
		c.Count("unit_plain_vs_typesystem_condition_differ", 1)
	}
	if strings.Contains(gotProd.Err, "cost limit exceeded") && exp.Exp != "E" {
		c.Inconclusive("evaluation cost limit exceeded")
		gotProd = gotPlain
	}
	obs := map[string]any{"condition.NewCompiled": gotPlain, "typesystem.GetCondition": gotProd}
	if verbose {
		b, _ := json.MarshalIndent(mkWitness("unit", i, vc, exp, obs), "", " ")
		fmt.Printf("REPLAY unit case %d:\n%s\n", i, b)
	}
	c.SampleEvery(i, c.Pick(15013, 375007), func() any { return mkWitness("unit", i, vc, exp, obs) })
	for _, g := range []struct {
		where string
		got   outcome
	}{{"EvaluateTupleCondition(condition.NewCompiled)", gotPlain}, {"EvaluateTupleCondition(typesystem condition)", gotProd}} {
		if agree(exp, g.got) {
			continue
		}
		eff := merge(vc.Req, vc.Stored)
		fid := findingFor(eff, exp, g.got)
		key := fid
		if key == "" {
			key = sig + "|" + g.got.Res
		}
		c.Violation(fid, key, describe(exp, g.got, g.where)+" -- condition "+vc.C.decl()+" request="+ctxString(vc.Req)+" stored="+ctxString(vc.Stored),
			mkWitness("unit", i, vc, exp, obs))
		break
	}
}

