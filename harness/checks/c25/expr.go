package c25

import (
	"math"
	"math/big"
	"strconv"
	"strings"
	"unicode/utf8"
)

// E is a node of a template expression. The oracle both renders it to CEL source text and evaluates it
// with the semantics of the CEL language definition (github.com/google/cel-spec/doc/langdef.md).
type E struct {
	Op   string
	A    []*E
	V    V      // literal
	Name string // variable / iteration variable / field
}

func lit(v V) *E                 { return &E{Op: "lit", V: v} }
func vr(n string) *E             { return &E{Op: "var", Name: n} }
func bin(op string, a, b *E) *E  { return &E{Op: op, A: []*E{a, b}} }
func not(a *E) *E                { return &E{Op: "!", A: []*E{a}} }
func tern(c, a, b *E) *E         { return &E{Op: "?:", A: []*E{c, a, b}} }
func call(f string, a ...*E) *E  { return &E{Op: f, A: a} }
func listLit(a ...*E) *E         { return &E{Op: "listlit", A: a} }
func macro(k string, l *E, v string, p *E) *E {
	return &E{Op: k, A: []*E{l, p}, Name: v}
}
func sel(m *E, f string) *E { return &E{Op: "select", A: []*E{m}, Name: f} }

func litInt(i int64) *E     { return lit(V{K: vInt, I: i}) }
func litUint(u uint64) *E   { return lit(V{K: vUint, U: u}) }
func litDbl(f float64) *E   { return lit(V{K: vDbl, F: f}) }
func litStr(s string) *E    { return lit(V{K: vStr, S: s}) }
func litBool(b bool) *E     { return lit(V{K: vBool, B: b}) }

func src(e *E) string {
	switch e.Op {
	case "lit":
		v := e.V
		switch v.K {
		case vBool:
			return strconv.FormatBool(v.B)
		case vStr:
			return strconv.Quote(v.S)
		case vInt:
			return strconv.FormatInt(v.I, 10)
		case vUint:
			return strconv.FormatUint(v.U, 10) + "u"
		case vDbl:
			s := strconv.FormatFloat(v.F, 'g', -1, 64)
			if !strings.ContainsAny(s, ".e") {
				s += ".0"
			}
			return s
		case vDur:
			return "duration(" + strconv.Quote(v.S) + ")"
		case vTs:
			return "timestamp(" + strconv.Quote(v.S) + ")"
		case vIP:
			return "ipaddress(" + strconv.Quote(v.S) + ")"
		case vNull:
			return "null"
		}
		return "?"
	case "var":
		return e.Name
	case "!":
		return "!(" + src(e.A[0]) + ")"
	case "?:":
		return "(" + src(e.A[0]) + ") ? (" + src(e.A[1]) + ") : (" + src(e.A[2]) + ")"
	case "listlit":
		var p []string
		for _, a := range e.A {
			p = append(p, src(a))
		}
		return "[" + strings.Join(p, ", ") + "]"
	case "index":
		return src(e.A[0]) + "[" + src(e.A[1]) + "]"
	case "select":
		return src(e.A[0]) + "." + e.Name
	case "exists", "all":
		return src(e.A[0]) + "." + e.Op + "(" + e.Name + ", " + src(e.A[1]) + ")"
	case "startsWith", "endsWith", "contains", "in_cidr":
		return src(e.A[0]) + "." + e.Op + "(" + src(e.A[1]) + ")"
	case "size", "getFullYear", "getHours":
		return src(e.A[0]) + "." + e.Op + "()"
	case "in":
		return "(" + src(e.A[0]) + " in " + src(e.A[1]) + ")"
	default: // binary operators
		return "(" + src(e.A[0]) + " " + e.Op + " " + src(e.A[1]) + ")"
	}
}

// vars lists the variables referenced by e (iteration variables excluded).
func vars(e *E, bound map[string]bool, into map[string]bool) {
	switch e.Op {
	case "var":
		if !bound[e.Name] {
			into[e.Name] = true
		}
	case "exists", "all":
		vars(e.A[0], bound, into)
		b2 := map[string]bool{e.Name: true}
		for k := range bound {
			b2[k] = true
		}
		vars(e.A[1], b2, into)
	default:
		for _, a := range e.A {
			vars(a, bound, into)
		}
	}
}

// ---------- evaluation ----------

const (
	rOK  = 0
	rErr = 1
	rUnk = 2 // depends on a parameter that is absent
	rNJ  = 3 // semantics not pinned down by the language definition (NaN): the case is not judged
)

type R struct {
	St  int
	V   V
	Why string
}

func okV(v V) R        { return R{V: v} }
func okB(b bool) R     { return R{V: V{K: vBool, B: b}} }
func errR(why string) R { return R{St: rErr, Why: why} }

// strict combines operand states of a strict function: absent parameter first, then error.
func strict(rs ...R) (R, bool) {
	for _, r := range rs {
		if r.St == rNJ {
			return r, true
		}
	}
	for _, r := range rs {
		if r.St == rUnk {
			return r, true
		}
	}
	for _, r := range rs {
		if r.St == rErr {
			return r, true
		}
	}
	return R{}, false
}

func eqV(a, b V) bool {
	if a.K != b.K {
		// cross-type numeric equality (only reachable through `any`)
		return false
	}
	switch a.K {
	case vBool:
		return a.B == b.B
	case vStr:
		return a.S == b.S
	case vInt, vDur:
		return a.I == b.I
	case vUint:
		return a.U == b.U
	case vDbl:
		return a.F == b.F
	case vTs:
		return a.Sec == b.Sec && a.Ns == b.Ns
	case vIP:
		return a.IP == b.IP && a.Is4 == b.Is4
	case vNull:
		return true
	case vList:
		if len(a.L) != len(b.L) {
			return false
		}
		for i := range a.L {
			if !eqV(a.L[i], b.L[i]) {
				return false
			}
		}
		return true
	case vMap:
		if len(a.M) != len(b.M) {
			return false
		}
		for k, x := range a.M {
			y, ok := b.M[k]
			if !ok || !eqV(x, y) {
				return false
			}
		}
		return true
	}
	return false
}

func cmpV(a, b V) (int, bool) {
	if a.K != b.K {
		return 0, false
	}
	c3 := func(l, g bool) int {
		if l {
			return -1
		}
		if g {
			return 1
		}
		return 0
	}
	switch a.K {
	case vStr:
		return strings.Compare(a.S, b.S), true
	case vInt, vDur:
		return c3(a.I < b.I, a.I > b.I), true
	case vUint:
		return c3(a.U < b.U, a.U > b.U), true
	case vDbl:
		return c3(a.F < b.F, a.F > b.F), true
	case vTs:
		if a.Sec != b.Sec {
			return c3(a.Sec < b.Sec, a.Sec > b.Sec), true
		}
		return c3(a.Ns < b.Ns, a.Ns > b.Ns), true
	case vBool:
		return c3(!a.B && b.B, a.B && !b.B), true
	}
	return 0, false
}

// timestamps valid in CEL: 0001-01-01T00:00:00Z .. 9999-12-31T23:59:59.999999999Z
const (
	minTsSec = -62135596800
	maxTsSec = 253402300799
)

func arith(op string, a, b V) R {
	bi := func(i int64) *big.Int { return big.NewInt(i) }
	switch {
	case a.K == vInt && b.K == vInt, a.K == vDur && b.K == vDur && (op == "+" || op == "-"):
		var r *big.Int
		switch op {
		case "+":
			r = new(big.Int).Add(bi(a.I), bi(b.I))
		case "-":
			r = new(big.Int).Sub(bi(a.I), bi(b.I))
		case "*":
			r = new(big.Int).Mul(bi(a.I), bi(b.I))
		case "/":
			if b.I == 0 {
				return errR("division by zero")
			}
			r = new(big.Int).Quo(bi(a.I), bi(b.I)) // truncated towards zero
		case "%":
			if b.I == 0 {
				return errR("modulus by zero")
			}
			if b.I == -1 && a.I == math.MinInt64 {
				// mathematically 0; cel-go reports an overflow; the language definition is silent
				return R{St: rNJ, Why: "minint%-1"}
			}
			r = new(big.Int).Rem(bi(a.I), bi(b.I)) // sign of the dividend
		}
		if r.Cmp(minInt64) < 0 || r.Cmp(maxInt64) > 0 {
			return errR("integer overflow")
		}
		return okV(V{K: a.K, I: r.Int64()})
	case a.K == vUint && b.K == vUint:
		x, y := new(big.Int).SetUint64(a.U), new(big.Int).SetUint64(b.U)
		var r *big.Int
		switch op {
		case "+":
			r = new(big.Int).Add(x, y)
		case "-":
			r = new(big.Int).Sub(x, y)
		case "*":
			r = new(big.Int).Mul(x, y)
		case "/":
			if b.U == 0 {
				return errR("division by zero")
			}
			r = new(big.Int).Quo(x, y)
		case "%":
			if b.U == 0 {
				return errR("modulus by zero")
			}
			r = new(big.Int).Rem(x, y)
		}
		if r.Sign() < 0 || r.Cmp(maxUint) > 0 {
			return errR("unsigned integer overflow")
		}
		return okV(V{K: vUint, U: r.Uint64()})
	case a.K == vDbl && b.K == vDbl:
		var f float64
		switch op {
		case "+":
			f = a.F + b.F
		case "-":
			f = a.F - b.F
		case "*":
			f = a.F * b.F
		case "/":
			f = a.F / b.F
		default:
			return errR("no such overload")
		}
		if math.IsNaN(f) {
			return R{St: rNJ, Why: "nan"}
		}
		return okV(V{K: vDbl, F: f})
	case a.K == vStr && b.K == vStr && op == "+":
		return okV(V{K: vStr, S: a.S + b.S})
	case a.K == vTs && b.K == vDur && (op == "+" || op == "-"), a.K == vDur && b.K == vTs && op == "+":
		ts, d := a, b
		if a.K == vDur {
			ts, d = b, a
		}
		dn := bi(d.I)
		if op == "-" {
			dn.Neg(dn)
		}
		total := new(big.Int).Mul(bi(ts.Sec), bi(1e9))
		total.Add(total, bi(ts.Ns))
		total.Add(total, dn)
		sec, ns := new(big.Int).DivMod(total, bi(1e9), new(big.Int)) // Euclidean: 0 <= ns
		if !sec.IsInt64() || sec.Int64() < minTsSec || sec.Int64() > maxTsSec {
			return errR("timestamp overflow")
		}
		return okV(V{K: vTs, Sec: sec.Int64(), Ns: ns.Int64()})
	case a.K == vTs && b.K == vTs && op == "-":
		x := new(big.Int).Add(new(big.Int).Mul(bi(a.Sec), bi(1e9)), bi(a.Ns))
		y := new(big.Int).Add(new(big.Int).Mul(bi(b.Sec), bi(1e9)), bi(b.Ns))
		r := x.Sub(x, y)
		if r.Cmp(minInt64) < 0 || r.Cmp(maxInt64) > 0 {
			return errR("duration overflow")
		}
		return okV(V{K: vDur, I: r.Int64()})
	}
	return errR("no such overload")
}

// eval evaluates e over env; a variable absent from env yields rUnk.
func eval(e *E, env map[string]V) R {
	switch e.Op {
	case "lit":
		if e.V.K == vIP {
			ip, is4, st := parseIP(e.V.S)
			if st != cOK {
				return errR("malformed ip literal")
			}
			return okV(V{K: vIP, IP: ip, Is4: is4, S: e.V.S})
		}
		return okV(e.V)
	case "var":
		v, ok := env[e.Name]
		if !ok {
			return R{St: rUnk, Why: "absent " + e.Name}
		}
		return okV(v)
	case "!":
		a := eval(e.A[0], env)
		if r, bad := strict(a); bad {
			return r
		}
		return okB(!a.V.B)
	case "||", "&&":
		a, b := eval(e.A[0], env), eval(e.A[1], env)
		short := e.Op == "||" // the absorbing value
		if a.St == rNJ || b.St == rNJ {
			return R{St: rNJ, Why: "nan"}
		}
		if (a.St == rOK && a.V.B == short) || (b.St == rOK && b.V.B == short) {
			return okB(short)
		}
		if r, bad := strict(a, b); bad {
			return r
		}
		return okB(!short)
	case "?:":
		c := eval(e.A[0], env)
		if r, bad := strict(c); bad {
			return r
		}
		if c.V.B {
			return eval(e.A[1], env)
		}
		return eval(e.A[2], env)
	case "listlit":
		out := V{K: vList}
		var rs []R
		for _, a := range e.A {
			rs = append(rs, eval(a, env))
		}
		if r, bad := strict(rs...); bad {
			return r
		}
		for _, r := range rs {
			out.L = append(out.L, r.V)
		}
		return okV(out)
	case "exists", "all":
		l := eval(e.A[0], env)
		if r, bad := strict(l); bad {
			return r
		}
		absorbing := e.Op == "exists"
		var pending *R
		for _, item := range l.V.L {
			env2 := make(map[string]V, len(env)+1)
			for k, v := range env {
				env2[k] = v
			}
			env2[e.Name] = item
			p := eval(e.A[1], env2)
			if p.St == rNJ {
				return p
			}
			if p.St == rOK && p.V.B == absorbing {
				return okB(absorbing)
			}
			if p.St != rOK && (pending == nil || (p.St == rUnk && pending.St != rUnk)) {
				pp := p
				pending = &pp
			}
		}
		if pending != nil {
			return *pending
		}
		return okB(!absorbing)
	}
	// strict functions and operators
	var rs []R
	for _, a := range e.A {
		rs = append(rs, eval(a, env))
	}
	if r, bad := strict(rs...); bad {
		return r
	}
	a := rs[0].V
	var b V
	if len(rs) > 1 {
		b = rs[1].V
	}
	switch e.Op {
	case "==":
		return okB(eqV(a, b))
	case "!=":
		return okB(!eqV(a, b))
	case "<", "<=", ">", ">=":
		c, ok := cmpV(a, b)
		if !ok {
			return errR("no such overload")
		}
		switch e.Op {
		case "<":
			return okB(c < 0)
		case "<=":
			return okB(c <= 0)
		case ">":
			return okB(c > 0)
		default:
			return okB(c >= 0)
		}
	case "+", "-", "*", "/", "%":
		return arith(e.Op, a, b)
	case "in":
		switch b.K {
		case vList:
			for _, x := range b.L {
				if eqV(a, x) {
					return okB(true)
				}
			}
			return okB(false)
		case vMap:
			if a.K != vStr {
				return okB(false)
			}
			_, ok := b.M[a.S]
			return okB(ok)
		}
		return errR("no such overload")
	case "index":
		switch a.K {
		case vList:
			if b.K != vInt {
				return errR("bad index")
			}
			if b.I < 0 || b.I >= int64(len(a.L)) {
				return errR("index out of bounds")
			}
			return okV(a.L[b.I])
		case vMap:
			if b.K != vStr {
				return errR("no such key")
			}
			x, ok := a.M[b.S]
			if !ok {
				return errR("no such key")
			}
			return okV(x)
		}
		return errR("no such overload")
	case "select":
		if a.K != vMap {
			return errR("no such overload")
		}
		x, ok := a.M[e.Name]
		if !ok {
			return errR("no such key")
		}
		return okV(x)
	case "startsWith":
		return okB(strings.HasPrefix(a.S, b.S))
	case "endsWith":
		return okB(strings.HasSuffix(a.S, b.S))
	case "contains":
		return okB(strings.Contains(a.S, b.S))
	case "size":
		switch a.K {
		case vStr:
			return okV(V{K: vInt, I: int64(utf8.RuneCountInString(a.S))})
		case vList:
			return okV(V{K: vInt, I: int64(len(a.L))})
		case vMap:
			return okV(V{K: vInt, I: int64(len(a.M))})
		}
		return errR("no such overload")
	case "in_cidr":
		net, net4, bits, ok := parseCIDR(b.S)
		if !ok {
			return errR("malformed CIDR")
		}
		return okB(cidrContains(net, net4, bits, a.IP, a.Is4))
	case "getFullYear", "getHours":
		// UTC per the CEL definition when no time zone argument is given
		days := floorDiv(a.Sec, 86400)
		rem := a.Sec - days*86400
		if e.Op == "getHours" {
			return okV(V{K: vInt, I: rem / 3600})
		}
		return okV(V{K: vInt, I: yearOfDays(days)})
	}
	return errR("unknown op " + e.Op)
}

func floorDiv(a, b int64) int64 {
	q := a / b
	if (a%b != 0) && ((a < 0) != (b < 0)) {
		q--
	}
	return q
}

// yearOfDays is the inverse of daysFromCivil restricted to the year.
func yearOfDays(z int64) int64 {
	z += 719468
	era := floorDiv(z, 146097)
	doe := z - era*146097
	yoe := (doe - doe/1460 + doe/36524 - doe/146096) / 365
	y := yoe + era*400
	doy := doe - (365*yoe + yoe/4 - yoe/100)
	mp := (5*doy + 2) / 153
	m := mp + 3
	if m > 12 {
		m -= 12
	}
	if m <= 2 {
		y++
	}
	return y
}

