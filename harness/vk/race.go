package vk

import (
	"os"
	"path/filepath"
	"regexp"
	"strings"
)

var frameRe = regexp.MustCompile(`^\s+(/[^\s:]+):(\d+)`)
var funcRe = regexp.MustCompile(`^  ([^\s(]+)\(`)

// raceScan reads the race-detector logs of this process (GORACE log_path=$VERIF_SCRATCH/race),
// de-duplicates report blocks by their function-name stacks (line numbers stripped) and attributes
// each to the property when a frame lies in one of RaceAnchors.
func (c *Ctx) raceScan() {
	dir := os.Getenv("VERIF_SCRATCH")
	if dir == "" {
		return
	}
	files, _ := filepath.Glob(filepath.Join(dir, "race.*"))
	if len(files) == 0 {
		return
	}
	seen := map[string]bool{}
	for _, f := range files {
		b, err := os.ReadFile(f)
		if err != nil {
			continue
		}
		blocks := strings.Split(string(b), "==================")
		for _, blk := range blocks {
			if !strings.Contains(blk, "WARNING: DATA RACE") {
				continue
			}
			c.Count("race_reports", 1)
			var fns []string
			attributed := false
			for _, line := range strings.Split(blk, "\n") {
				if m := funcRe.FindStringSubmatch(line); m != nil {
					fns = append(fns, m[1])
				}
				if m := frameRe.FindStringSubmatch(line); m != nil {
					for _, a := range c.RaceAnchors {
						if strings.Contains(m[1], a) && !strings.Contains(m[1], "_test.go") {
							attributed = true
						}
					}
				}
			}
			sig := strings.Join(fns, "|")
			if seen[sig] {
				continue
			}
			seen[sig] = true
			c.Count("race_reports_distinct", 1)
			if attributed {
				c.Violation("", "race:"+sig, "data race reported by the Go race detector in code anchored to this property", map[string]any{"report": blk})
			} else {
				c.Count("race_reports_unattributed", 1)
				_ = os.MkdirAll(filepath.Join(Root(), "replay"), 0o755)
				_ = os.WriteFile(filepath.Join(Root(), "replay", c.ID+"-unattributed-race.log"), []byte(blk), 0o644)
				c.Logf("race report outside this property's anchors (recorded, no alarm): %s", truncate(sig, 300))
			}
		}
	}
}
