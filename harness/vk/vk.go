// Package vk is the verification kit shared by every check: deterministic PRNG streams,
// three-valued verdict bookkeeping, evidence and replay files, known-finding matching.
package vk

import (
	"crypto/sha256"
	"encoding/binary"
	"encoding/json"
	"fmt"
	"math/rand"
	"os"
	"path/filepath"
	"sort"
	"strconv"
	"strings"
	"sync"
	"time"
)

// Root is the /verif directory (overridable for tests through VERIF_ROOT).
func Root() string {
	if r := os.Getenv("VERIF_ROOT"); r != "" {
		return r
	}
	return "/verif"
}

// CheckFunc is the body of one property check.
type CheckFunc func(c *Ctx)

type registration struct {
	id    string
	level string
	fn    CheckFunc
}

var registry = map[string]registration{}

// Register adds a check. level is the EVIDENCE level (exploration, fault_enumeration, ...).
func Register(id, level string, fn CheckFunc) {
	registry[id] = registration{id: id, level: level, fn: fn}
}

// IDs lists the registered checks.
func IDs() []string {
	var out []string
	for k := range registry {
		out = append(out, k)
	}
	sort.Strings(out)
	return out
}

// Finding is one entry of known_findings.json.
type Finding struct {
	Property  string `json:"property"`
	ID        string `json:"id"`
	Status    string `json:"status"` // "finding" or "fixed"
	Commit    string `json:"commit,omitempty"`
	What      string `json:"what"`
	Signature string `json:"signature"`
}

// Ctx is handed to a check.
type Ctx struct {
	ID     string
	Tier   string
	Seed   int64
	Replay string // non-empty: replay this file only
	Level  string
	Args   []string // extra args after the tier

	mu          sync.Mutex
	start       time.Time
	evaluations int64
	distinct    map[string]struct{}
	samples     []any
	maxSamples  int
	counters    map[string]int64
	sets        map[string]map[string]struct{}
	rule        string
	assumptions []string
	violations  int
	vioKeys     map[string]struct{}
	known       map[string]int
	inconcl     map[string]int
	findings    []Finding
	exhaustive  bool
	extra       map[string]any
	harnessErr  []string

	// RaceAnchors: path fragments of the code under test; a race-detector report with a frame in
	// one of them is a violation of this property. Other reports are recorded but raise no alarm.
	RaceAnchors []string
}

// Quick reports whether the tier is quick.
func (c *Ctx) Quick() bool { return c.Tier != "thorough" }

// Pick returns q on the quick tier and t on the thorough tier.
func (c *Ctx) Pick(q, t int) int {
	if c.Quick() {
		return q
	}
	return t
}

// Rand returns an independent deterministic PRNG stream for (seed, property, label).
func (c *Ctx) Rand(label string) *rand.Rand {
	h := sha256.Sum256([]byte(fmt.Sprintf("%d|%s|%s", c.Seed, c.ID, label)))
	return rand.New(rand.NewSource(int64(binary.LittleEndian.Uint64(h[:8]))))
}

// SubSeed derives a stable int64 from the seed and a label.
func (c *Ctx) SubSeed(label string) int64 {
	h := sha256.Sum256([]byte(fmt.Sprintf("%d|%s|%s", c.Seed, c.ID, label)))
	return int64(binary.LittleEndian.Uint64(h[:8]) >> 1)
}

// SetRule states how cases are generated and what makes one non-trivial/distinct.
func (c *Ctx) SetRule(r string) { c.mu.Lock(); c.rule = r; c.mu.Unlock() }

// Assume records an assumption / trusted base item.
func (c *Ctx) Assume(a string) { c.mu.Lock(); c.assumptions = append(c.assumptions, a); c.mu.Unlock() }

// SetExhaustive marks the run as a complete enumeration of a finite space.
func (c *Ctx) SetExhaustive(b bool) { c.mu.Lock(); c.exhaustive = b; c.mu.Unlock() }

// Case counts one evaluation; when nontrivial, sig is added to the set of distinct non-trivial cases.
func (c *Ctx) Case(sig string, nontrivial bool) {
	c.mu.Lock()
	c.evaluations++
	if nontrivial {
		c.distinct[sig] = struct{}{}
	}
	c.mu.Unlock()
}

// Evals adds n evaluations without a signature.
func (c *Ctx) Evals(n int) { c.mu.Lock(); c.evaluations += int64(n); c.mu.Unlock() }

// Distinct adds a distinct non-trivial signature without counting an evaluation.
func (c *Ctx) Distinct(sig string) { c.mu.Lock(); c.distinct[sig] = struct{}{}; c.mu.Unlock() }

// Count adds n to a named counter reported in the evidence.
func (c *Ctx) Count(name string, n int) { c.mu.Lock(); c.counters[name] += int64(n); c.mu.Unlock() }

// Counter returns the value of a named counter.
func (c *Ctx) Counter(name string) int64 { c.mu.Lock(); defer c.mu.Unlock(); return c.counters[name] }

// Seen adds a member to a named set; the set's cardinality is reported in the evidence.
func (c *Ctx) Seen(set, member string) {
	c.mu.Lock()
	m := c.sets[set]
	if m == nil {
		m = map[string]struct{}{}
		c.sets[set] = m
	}
	m[member] = struct{}{}
	c.mu.Unlock()
}

// SeenCount returns the cardinality of a named set.
func (c *Ctx) SeenCount(set string) int { c.mu.Lock(); defer c.mu.Unlock(); return len(c.sets[set]) }

// Sample keeps v as a written-out sample (bounded).
func (c *Ctx) Sample(v any) {
	c.mu.Lock()
	if len(c.samples) < c.maxSamples {
		c.samples = append(c.samples, v)
	}
	c.mu.Unlock()
}

// SampleEvery keeps v if fewer than max samples are kept and i is a multiple of every.
func (c *Ctx) SampleEvery(i, every int, v func() any) {
	if every <= 0 || i%every != 0 {
		return
	}
	c.mu.Lock()
	ok := len(c.samples) < c.maxSamples
	c.mu.Unlock()
	if ok {
		c.Sample(v())
	}
}

// Extra stores an additional key in the coverage object.
func (c *Ctx) Extra(key string, v any) { c.mu.Lock(); c.extra[key] = v; c.mu.Unlock() }

// Inconclusive counts an item that could not be decided (timeouts, hook never reached...).
func (c *Ctx) Inconclusive(reason string) { c.mu.Lock(); c.inconcl[reason]++; c.mu.Unlock() }

// HarnessError records a failure of the machinery itself (exit 2, never a violation).
func (c *Ctx) HarnessError(format string, a ...any) {
	msg := fmt.Sprintf(format, a...)
	c.mu.Lock()
	c.harnessErr = append(c.harnessErr, msg)
	c.mu.Unlock()
	fmt.Printf("HARNESS-ERROR property=%s %s\n", c.ID, msg)
}

// MatchFinding returns the listed (status=finding) entry with the given id, if any.
func (c *Ctx) MatchFinding(id string) *Finding {
	for i := range c.findings {
		f := &c.findings[i]
		if f.Property == c.ID && f.ID == id && f.Status == "finding" {
			return f
		}
	}
	return nil
}

// FindingStatus returns "finding", "fixed" or "" (not listed) for a finding id of this property.
func (c *Ctx) FindingStatus(id string) string {
	for i := range c.findings {
		f := &c.findings[i]
		if f.Property == c.ID && f.ID == id {
			return f.Status
		}
	}
	return ""
}

// Known prints the KNOWN-FINDING line for a listed finding (once per finding per run) and counts it.
// It returns false when the finding is not listed (the caller must then report a violation).
func (c *Ctx) Known(findingID string) bool {
	f := c.MatchFinding(findingID)
	if f == nil {
		return false
	}
	c.mu.Lock()
	first := c.known[findingID] == 0
	c.known[findingID]++
	c.mu.Unlock()
	if first {
		fmt.Printf("KNOWN-FINDING: property=%s %s [%s]\n", c.ID, f.What, f.ID)
	}
	return true
}

// Violation records a violation with a witness, writes a replay file and prints the VIOLATION line.
// key de-duplicates reports (one line per key). If findingID is non-empty and listed in
// known_findings.json as a finding, a KNOWN-FINDING line is printed instead.
func (c *Ctx) Violation(findingID, key, what string, witness any) {
	if findingID != "" && c.Known(findingID) {
		return
	}
	c.mu.Lock()
	if _, dup := c.vioKeys[key]; dup {
		c.violations++
		c.mu.Unlock()
		return
	}
	c.vioKeys[key] = struct{}{}
	c.violations++
	n := len(c.vioKeys)
	c.mu.Unlock()
	if n > 25 {
		return // enough witnesses
	}
	if c.Replay != "" {
		fmt.Printf("VIOLATION property=%s replay=%s\n", c.ID, c.Replay)
		fmt.Printf("  what: %s\n", truncate(what, 2000))
		return
	}
	dir := filepath.Join(Root(), "replay")
	_ = os.MkdirAll(dir, 0o755)
	path := filepath.Join(dir, fmt.Sprintf("%s-%s-seed%d-%d.json", c.ID, c.Tier, c.Seed, n))
	doc := map[string]any{
		"property": c.ID, "tier": c.Tier, "seed": c.Seed, "what": what, "key": key, "witness": witness,
	}
	b, err := json.MarshalIndent(doc, "", " ")
	if err != nil {
		b = []byte(fmt.Sprintf("{\"property\":%q,\"what\":%q,\"witness\":%q}", c.ID, what, fmt.Sprint(witness)))
	}
	_ = os.WriteFile(path, b, 0o644)
	fmt.Printf("VIOLATION property=%s replay=%s\n", c.ID, path)
	fmt.Printf("  what: %s\n", truncate(what, 2000))
}

// Violations returns the number of violations recorded so far.
func (c *Ctx) Violations() int { c.mu.Lock(); defer c.mu.Unlock(); return c.violations }

func truncate(s string, n int) string {
	if len(s) <= n {
		return s
	}
	return s[:n] + "…"
}

// Logf prints a progress line.
func (c *Ctx) Logf(format string, a ...any) {
	fmt.Printf("[%s %s seed=%d +%.1fs] %s\n", c.ID, c.Tier, c.Seed, time.Since(c.start).Seconds(), fmt.Sprintf(format, a...))
}

func loadFindings() []Finding {
	b, err := os.ReadFile(filepath.Join(Root(), "known_findings.json"))
	if err != nil {
		return nil
	}
	var doc struct {
		Findings []Finding `json:"findings"`
	}
	if err := json.Unmarshal(b, &doc); err != nil {
		fmt.Printf("HARNESS-ERROR cannot parse known_findings.json: %v\n", err)
		os.Exit(2)
	}
	return doc.Findings
}

func (c *Ctx) writeEvidence() error {
	c.mu.Lock()
	defer c.mu.Unlock()
	cov := map[string]any{}
	for k, v := range c.extra {
		cov[k] = v
	}
	cov["evaluations"] = c.evaluations
	cov["distinct_nontrivial"] = len(c.distinct)
	cov["rule"] = c.rule
	samples := c.samples
	if samples == nil {
		samples = []any{}
	}
	cov["samples"] = samples
	if c.exhaustive {
		cov["exhaustive"] = true
	}
	counters := map[string]int64{}
	for k, v := range c.counters {
		counters[k] = v
	}
	for k, v := range c.sets {
		counters["distinct_"+k] = int64(len(v))
	}
	cov["observed"] = counters
	if len(c.inconcl) > 0 {
		cov["inconclusive"] = c.inconcl
	}
	if len(c.known) > 0 {
		cov["known_findings_hit"] = c.known
	}
	if len(c.harnessErr) > 0 {
		cov["harness_errors"] = c.harnessErr
	}
	tier := c.Tier
	if tier != "thorough" {
		tier = "quick"
	}
	doc := map[string]any{
		"property_id": c.ID,
		"tier":        tier,
		"seed":        c.Seed,
		"level":       c.Level,
		"coverage":    cov,
		"assumptions": append([]string{}, c.assumptions...),
		"wall_s":      time.Since(c.start).Seconds(),
		"violations":  c.violations,
	}
	b, err := json.MarshalIndent(doc, "", " ")
	if err != nil {
		return err
	}
	dir := filepath.Join(Root(), "evidence")
	if err := os.MkdirAll(dir, 0o755); err != nil {
		return err
	}
	return os.WriteFile(filepath.Join(dir, c.ID+".json"), b, 0o644)
}

// Main is the entry point of the vcheck binary: vcheck <ID> <tier> [--replay file] [args...].
func Main() {
	if len(os.Args) < 2 {
		fmt.Println("usage: vcheck <ID> <quick|thorough> [--replay file] | vcheck list")
		os.Exit(2)
	}
	if os.Args[1] == "list" {
		fmt.Println(strings.Join(IDs(), "\n"))
		return
	}
	id := os.Args[1]
	reg, ok := registry[id]
	if !ok {
		fmt.Printf("HARNESS-ERROR unknown check %q\n", id)
		os.Exit(2)
	}
	tier := "quick"
	if v := os.Getenv("VERIF_TIER"); v != "" {
		tier = v
	}
	args := os.Args[2:]
	if len(args) > 0 && !strings.HasPrefix(args[0], "--") {
		tier = args[0]
		args = args[1:]
	}
	replay := ""
	var rest []string
	for i := 0; i < len(args); i++ {
		if args[i] == "--replay" && i+1 < len(args) {
			replay = args[i+1]
			i++
			continue
		}
		rest = append(rest, args[i])
	}
	seed := int64(1)
	if v := os.Getenv("VERIF_SEED"); v != "" {
		if n, err := strconv.ParseInt(v, 10, 64); err == nil {
			seed = n
		}
	}
	c := &Ctx{
		ID: id, Tier: tier, Seed: seed, Replay: replay, Level: reg.level, Args: rest,
		start: time.Now(), distinct: map[string]struct{}{}, maxSamples: 8,
		counters: map[string]int64{}, sets: map[string]map[string]struct{}{},
		vioKeys: map[string]struct{}{}, known: map[string]int{}, inconcl: map[string]int{},
		extra: map[string]any{}, findings: loadFindings(),
	}
	if replay != "" {
		if b, err := os.ReadFile(replay); err == nil {
			var doc struct {
				Seed int64  `json:"seed"`
				Tier string `json:"tier"`
			}
			if json.Unmarshal(b, &doc) == nil && doc.Tier != "" {
				c.Seed, c.Tier = doc.Seed, doc.Tier
			}
		}
	}
	if replay == "" {
		// stale witnesses of an earlier run with the same (id, tier, seed) would be misleading
		old, _ := filepath.Glob(filepath.Join(Root(), "replay", fmt.Sprintf("%s-%s-seed%d-*.json", id, c.Tier, c.Seed)))
		for _, f := range old {
			_ = os.Remove(f)
		}
	}
	code := c.run(reg.fn)
	os.Exit(code)
}

func (c *Ctx) run(fn CheckFunc) (code int) {
	func() {
		defer func() {
			if r := recover(); r != nil {
				c.HarnessError("check panicked: %v", r)
				panic(r)
			}
		}()
		fn(c)
	}()
	c.raceScan()
	c.mu.Lock()
	ev, dn, vio, herr := c.evaluations, len(c.distinct), c.violations, len(c.harnessErr)
	c.mu.Unlock()
	if c.Replay == "" {
		if err := c.writeEvidence(); err != nil {
			fmt.Printf("HARNESS-ERROR cannot write evidence: %v\n", err)
			return 2
		}
	}
	fmt.Printf("SUMMARY property=%s tier=%s seed=%d evaluations=%d distinct_nontrivial=%d violations=%d wall=%.1fs\n",
		c.ID, c.Tier, c.Seed, ev, dn, vio, time.Since(c.start).Seconds())
	if vio > 0 {
		return 1
	}
	if herr > 0 {
		return 2
	}
	if c.Replay == "" && (ev < 1 || dn < 2) {
		fmt.Printf("HARNESS-ERROR property=%s monitors observed nothing non-trivial (evaluations=%d distinct=%d)\n", c.ID, ev, dn)
		return 2
	}
	return 0
}
