// Package gen holds the seeded generators of the semantic checks: authorization models over a
// bounded vocabulary, tuple sets (including cycles, wildcards, usersets, conditional tuples and tuples
// that are invalid for the model), request spaces and request contexts.
package gen

import (
	"fmt"
	"math/rand"
	"sort"
	"strings"

	openfgav1 "github.com/openfga/api/proto/openfga/v1"
	"google.golang.org/protobuf/types/known/structpb"
)

// Vocabulary.
var (
	UserIDs   = []string{"a", "b", "c"}
	GroupIDs  = []string{"g1", "g2", "g3"}
	FolderIDs = []string{"f1", "f2", "f3"}
	DocIDs    = []string{"d1", "d2", "d3"}
	relPool   = map[string][]string{
		"group":  {"member", "admin", "owner"},
		"folder": {"viewer", "editor", "owner", "blocked"},
		"doc":    {"viewer", "editor", "owner", "blocked"},
	}
	typeOrder = []string{"user", "group", "folder", "doc"}
)

// IDs returns the ids of a type in the vocabulary.
func IDs(typ string) []string {
	switch typ {
	case "user":
		return UserIDs
	case "group":
		return GroupIDs
	case "folder":
		return FolderIDs
	case "doc":
		return DocIDs
	}
	return nil
}

// condition templates (the family ref.TemplateCondEval understands)
type condTemplate struct {
	name   string
	expr   string
	params map[string]openfgav1.ConditionParamTypeRef_TypeName
}

var condTemplates = []condTemplate{
	{"c_int", "x < 10", map[string]openfgav1.ConditionParamTypeRef_TypeName{"x": openfgav1.ConditionParamTypeRef_TYPE_NAME_INT}},
	{"c_str", "s == \"ok\"", map[string]openfgav1.ConditionParamTypeRef_TypeName{"s": openfgav1.ConditionParamTypeRef_TYPE_NAME_STRING}},
	{"c_two", "x >= 5 && b", map[string]openfgav1.ConditionParamTypeRef_TypeName{"x": openfgav1.ConditionParamTypeRef_TYPE_NAME_INT, "b": openfgav1.ConditionParamTypeRef_TYPE_NAME_BOOL}},
	{"c_or", "x > 100 || s != \"no\"", map[string]openfgav1.ConditionParamTypeRef_TypeName{"x": openfgav1.ConditionParamTypeRef_TYPE_NAME_INT, "s": openfgav1.ConditionParamTypeRef_TYPE_NAME_STRING}},
}

func condProto(t condTemplate) *openfgav1.Condition {
	c := &openfgav1.Condition{Name: t.name, Expression: t.expr, Parameters: map[string]*openfgav1.ConditionParamTypeRef{}}
	for p, tn := range t.params {
		c.Parameters[p] = &openfgav1.ConditionParamTypeRef{TypeName: tn}
	}
	return c
}

// Case is one generated (model, tuples) pair with its request space.
type Case struct {
	Name       string
	Model      *openfgav1.AuthorizationModel // the model under test
	Permissive *openfgav1.AuthorizationModel // every relation directly assignable to anything: used to write left-over tuples
	Tuples     []*openfgav1.TupleKey         // unique by (object, relation, user)
	Contexts   []*structpb.Struct            // request contexts (first is nil)
	CondNames  []string
	Features   map[string]bool
	// IDs is the per-type id vocabulary of the case (nil: the default 3-id vocabulary). Wide cases
	// (Options.Wide) use more ids per type so that operand result sets of different sizes occur.
	IDs map[string][]string
}

// IDsOf returns the ids of a type in this case's vocabulary.
func (c *Case) IDsOf(typ string) []string {
	if c != nil && c.IDs != nil {
		return c.IDs[typ]
	}
	return IDs(typ)
}

// ObjectsOf returns the request objects of a type: the case's ids plus one id that never occurs in data.
func (c *Case) ObjectsOf(typ string) []string {
	var out []string
	for _, id := range c.IDsOf(typ) {
		out = append(out, typ+":"+id)
	}
	return append(out, typ+":zz")
}

var wideIDs = map[string][]string{
	"user":   {"a", "b", "c", "d", "e"},
	"group":  {"g1", "g2", "g3", "g4"},
	"folder": {"f1", "f2", "f3", "f4", "f5"},
	"doc":    {"d1", "d2", "d3", "d4", "d5", "d6", "d7"},
}

func this() *openfgav1.Userset {
	return &openfgav1.Userset{Userset: &openfgav1.Userset_This{This: &openfgav1.DirectUserset{}}}
}
func computed(rel string) *openfgav1.Userset {
	return &openfgav1.Userset{Userset: &openfgav1.Userset_ComputedUserset{ComputedUserset: &openfgav1.ObjectRelation{Relation: rel}}}
}
func ttu(tupleset, rel string) *openfgav1.Userset {
	return &openfgav1.Userset{Userset: &openfgav1.Userset_TupleToUserset{TupleToUserset: &openfgav1.TupleToUserset{
		Tupleset: &openfgav1.ObjectRelation{Relation: tupleset}, ComputedUserset: &openfgav1.ObjectRelation{Relation: rel}}}}
}
func union(ch ...*openfgav1.Userset) *openfgav1.Userset {
	return &openfgav1.Userset{Userset: &openfgav1.Userset_Union{Union: &openfgav1.Usersets{Child: ch}}}
}
func intersection(ch ...*openfgav1.Userset) *openfgav1.Userset {
	return &openfgav1.Userset{Userset: &openfgav1.Userset_Intersection{Intersection: &openfgav1.Usersets{Child: ch}}}
}
func difference(base, sub *openfgav1.Userset) *openfgav1.Userset {
	return &openfgav1.Userset{Userset: &openfgav1.Userset_Difference{Difference: &openfgav1.Difference{Base: base, Subtract: sub}}}
}

// Ref builds a relation reference.
func Ref(typ, rel string, wildcard bool, cond string) *openfgav1.RelationReference {
	r := &openfgav1.RelationReference{Type: typ, Condition: cond}
	if wildcard {
		r.RelationOrWildcard = &openfgav1.RelationReference_Wildcard{Wildcard: &openfgav1.Wildcard{}}
	} else if rel != "" {
		r.RelationOrWildcard = &openfgav1.RelationReference_Relation{Relation: rel}
	}
	return r
}

type relDef struct {
	name    string
	rewrite *openfgav1.Userset
	restr   []*openfgav1.RelationReference
}

type modelGen struct {
	r       *rand.Rand
	rels    map[string][]string // type -> relation names (excluding parent)
	hasPar  map[string]bool
	parents map[string][]string // type -> parent types
	conds   []string
	gone    string // condition defined by the permissive model only
	feat    map[string]bool
	ids     map[string][]string // nil: default vocabulary
	wide    bool
}

func (g *modelGen) idsOf(t string) []string {
	if g.ids != nil {
		return g.ids[t]
	}
	return IDs(t)
}

// pick draws one id of the type.
func (g *modelGen) pick(t string) string {
	ids := g.idsOf(t)
	return ids[g.r.Intn(len(ids))]
}

// Options tune generation.
type Options struct {
	NoConditions bool
	MaxDepth     int // rewrite depth, default 2 (3 occasionally)
	// Wide: 4-7 ids per type, operators with 2-4 operands, up to ~100 tuples. The default (narrow)
	// generation is unchanged by this option's existence (same PRNG draws).
	Wide bool
	// WideEvery > 0: sem.RunCases makes every WideEvery-th case a wide one.
	WideEvery int
	// AlgebraEvery > 0: sem.RunCases / sem.Generate make every AlgebraEvery-th case a NewAlgebraCase.
	AlgebraEvery int
	// Algebra: generate a NewAlgebraCase.
	Algebra bool
	// HierarchyEvery / Hierarchy: the same for NewHierarchyCase.
	HierarchyEvery int
	Hierarchy      bool
	// MutualEvery / Mutual: the same for NewMutualCase.
	MutualEvery int
	Mutual      bool
}

// NewCase generates one case from the PRNG.
func NewCase(r *rand.Rand, name string, opt Options) *Case {
	if opt.Algebra {
		return NewAlgebraCase(r, name)
	}
	if opt.Mutual {
		return NewMutualCase(r, name)
	}
	if opt.Hierarchy {
		if r.Intn(3) == 0 {
			return NewMutualCase(r, name)
		}
		return NewHierarchyCase(r, name)
	}
	g := &modelGen{r: r, rels: map[string][]string{}, hasPar: map[string]bool{}, parents: map[string][]string{}, feat: map[string]bool{}}
	if opt.Wide {
		g.wide, g.ids = true, wideIDs
		g.feat["wide"] = true
	}
	// relation names per type
	for _, t := range []string{"group", "folder", "doc"} {
		pool := append([]string{}, relPool[t]...)
		r.Shuffle(len(pool), func(i, j int) { pool[i], pool[j] = pool[j], pool[i] })
		n := 1 + r.Intn(len(pool))
		if t == "group" && n > 2 {
			n = 2
		}
		names := pool[:n]
		sort.Strings(names)
		g.rels[t] = names
	}
	// member must exist on group most of the time (usersets group#member are the classic shape)
	if !contains(g.rels["group"], "member") && r.Intn(4) != 0 {
		g.rels["group"][0] = "member"
		sort.Strings(g.rels["group"])
	}
	// parents
	if r.Intn(3) != 0 {
		g.hasPar["folder"] = true
		g.parents["folder"] = []string{"folder"}
	}
	if r.Intn(4) != 0 {
		g.hasPar["doc"] = true
		g.parents["doc"] = []string{"folder"}
		if r.Intn(5) == 0 {
			g.parents["doc"] = []string{"folder", "doc"}
		}
	}
	if r.Intn(4) == 0 {
		g.hasPar["group"] = true
		g.parents["group"] = []string{"group"}
	}
	// conditions
	if !opt.NoConditions && r.Intn(10) < 6 {
		n := 1 + r.Intn(2)
		perm := r.Perm(len(condTemplates))
		for i := 0; i < n; i++ {
			g.conds = append(g.conds, condTemplates[perm[i]].name)
		}
		sort.Strings(g.conds)
	}
	// a condition that exists only in the permissive (earlier) model: tuples written with it are left
	// over with a condition the model under test no longer defines
	if !opt.NoConditions && r.Intn(3) == 0 {
		for _, i := range r.Perm(len(condTemplates)) {
			if !contains(g.conds, condTemplates[i].name) {
				g.gone = condTemplates[i].name
				break
			}
		}
	}
	maxDepth := opt.MaxDepth
	if maxDepth == 0 {
		maxDepth = 2
		if r.Intn(5) == 0 {
			maxDepth = 3
		}
	}

	model := &openfgav1.AuthorizationModel{SchemaVersion: "1.1", Conditions: map[string]*openfgav1.Condition{}}
	perm := &openfgav1.AuthorizationModel{SchemaVersion: "1.1", Conditions: map[string]*openfgav1.Condition{}}
	for _, cn := range g.conds {
		for _, t := range condTemplates {
			if t.name == cn {
				model.Conditions[cn] = condProto(t)
				perm.Conditions[cn] = condProto(t)
			}
		}
	}
	for _, t := range condTemplates {
		if t.name == g.gone {
			perm.Conditions[g.gone] = condProto(t)
		}
	}
	model.TypeDefinitions = append(model.TypeDefinitions, &openfgav1.TypeDefinition{Type: "user"})
	perm.TypeDefinitions = append(perm.TypeDefinitions, &openfgav1.TypeDefinition{Type: "user"})
	for _, t := range []string{"group", "folder", "doc"} {
		td := &openfgav1.TypeDefinition{Type: t, Relations: map[string]*openfgav1.Userset{}, Metadata: &openfgav1.Metadata{Relations: map[string]*openfgav1.RelationMetadata{}}}
		if g.hasPar[t] {
			var restr []*openfgav1.RelationReference
			for _, pt := range g.parents[t] {
				cond := ""
				if len(g.conds) > 0 && r.Intn(5) == 0 {
					cond = g.conds[r.Intn(len(g.conds))]
					g.feat["cond-tupleset"] = true
				}
				restr = append(restr, Ref(pt, "", false, cond))
				if cond != "" && r.Intn(2) == 0 {
					restr = append(restr, Ref(pt, "", false, ""))
				}
			}
			td.Relations["parent"] = this()
			td.Metadata.Relations["parent"] = &openfgav1.RelationMetadata{DirectlyRelatedUserTypes: restr}
		}
		for i, rn := range g.rels[t] {
			d := g.genRelation(t, rn, i, maxDepth)
			td.Relations[rn] = d.rewrite
			td.Metadata.Relations[rn] = &openfgav1.RelationMetadata{DirectlyRelatedUserTypes: d.restr}
		}
		model.TypeDefinitions = append(model.TypeDefinitions, td)
	}
	// permissive model: same types / relation names, every relation [everything]
	var allRefs []*openfgav1.RelationReference
	condOpts := append([]string{""}, g.conds...)
	if g.gone != "" {
		condOpts = append(condOpts, g.gone)
	}
	for _, c := range condOpts {
		for _, t := range typeOrder {
			allRefs = append(allRefs, Ref(t, "", false, c), Ref(t, "", true, c))
			for _, rn := range g.allRelNames(t) {
				allRefs = append(allRefs, Ref(t, rn, false, c))
			}
		}
	}
	for _, t := range []string{"group", "folder", "doc"} {
		td := &openfgav1.TypeDefinition{Type: t, Relations: map[string]*openfgav1.Userset{}, Metadata: &openfgav1.Metadata{Relations: map[string]*openfgav1.RelationMetadata{}}}
		for _, rn := range g.allRelNames(t) {
			td.Relations[rn] = this()
			td.Metadata.Relations[rn] = &openfgav1.RelationMetadata{DirectlyRelatedUserTypes: allRefs}
		}
		perm.TypeDefinitions = append(perm.TypeDefinitions, td)
	}
	c := &Case{Name: name, Model: model, Permissive: perm, CondNames: g.conds, Features: g.feat, IDs: g.ids}
	c.Tuples = g.genTuples(model)
	c.Contexts = g.genContexts()
	return c
}

func contains(xs []string, x string) bool {
	for _, y := range xs {
		if y == x {
			return true
		}
	}
	return false
}

func (g *modelGen) allRelNames(t string) []string {
	out := append([]string{}, g.rels[t]...)
	if g.hasPar[t] {
		out = append(out, "parent")
	}
	sort.Strings(out)
	return out
}

func (g *modelGen) genRelation(t, name string, idx, maxDepth int) relDef {
	d := relDef{name: name}
	usedThis := false
	var expr func(depth int) *openfgav1.Userset
	leaf := func() *openfgav1.Userset {
		for tries := 0; tries < 8; tries++ {
			k := g.r.Intn(100)
			switch {
			case k < 50 && !usedThis:
				usedThis = true
				return this()
			case k < 75:
				// computed: another relation of the same type, biased to earlier ones
				others := []string{}
				for j, rn := range g.rels[t] {
					if rn != name && (j < idx || g.r.Intn(4) == 0) {
						others = append(others, rn)
					}
				}
				if len(others) == 0 {
					continue
				}
				g.feat["computed"] = true
				return computed(others[g.r.Intn(len(others))])
			default:
				if !g.hasPar[t] {
					continue
				}
				// computed relation must exist on some parent type
				var cands []string
				for _, pt := range g.parents[t] {
					cands = append(cands, g.rels[pt]...)
				}
				if len(cands) == 0 {
					continue
				}
				rel := cands[g.r.Intn(len(cands))]
				if contains(cands, name) && g.r.Intn(2) == 0 {
					rel = name // recursive TTU: viewer from parent
					g.feat["recursive-ttu"] = true
				}
				g.feat["ttu"] = true
				return ttu("parent", rel)
			}
		}
		if !usedThis {
			usedThis = true
			return this()
		}
		if idx > 0 {
			return computed(g.rels[t][0])
		}
		return computed(name) // will be rejected by validation; counted
	}
	expr = func(depth int) *openfgav1.Userset {
		if depth == 0 || g.r.Intn(100) < 40 {
			return leaf()
		}
		k := g.r.Intn(100)
		// operands of one operator are pairwise different (real models do not repeat an operand;
		// degenerate repeats are produced only one time in 15)
		distinct := func(n int) []*openfgav1.Userset {
			var ch []*openfgav1.Userset
			seen := map[string]bool{}
			allowDup := g.r.Intn(15) == 0
			for tries := 0; len(ch) < n && tries < 12; tries++ {
				e := expr(depth - 1)
				key := e.String()
				if seen[key] && !allowDup {
					continue
				}
				seen[key] = true
				ch = append(ch, e)
			}
			return ch
		}
		switch {
		case k < 45:
			n := 2 + g.r.Intn(2)
			if g.wide {
				n += g.r.Intn(2)
			}
			ch := distinct(n)
			if len(ch) < 2 {
				return ch[0]
			}
			g.feat["union"] = true
			return union(ch...)
		case k < 75:
			n := 2
			if g.wide && g.r.Intn(4) != 0 {
				n = 3 + g.r.Intn(2)
			}
			ch := distinct(n)
			if len(ch) < 2 {
				return ch[0]
			}
			if len(ch) > 2 {
				g.feat["nary-intersection"] = true
			}
			g.feat["intersection"] = true
			return intersection(ch...)
		default:
			ch := distinct(2)
			if len(ch) < 2 {
				return ch[0]
			}
			g.feat["exclusion"] = true
			return difference(ch[0], ch[1])
		}
	}
	if idx == 0 && g.r.Intn(3) != 0 {
		// first relation of a type: mostly plain direct assignment (gives every model entry points)
		usedThis = true
		d.rewrite = this()
	} else {
		d.rewrite = expr(maxDepth)
	}
	if usedThis {
		d.restr = g.genRestrictions(t, name)
	}
	return d
}

func (g *modelGen) cond(p int) string {
	if len(g.conds) > 0 && g.r.Intn(100) < p {
		g.feat["cond-restriction"] = true
		return g.conds[g.r.Intn(len(g.conds))]
	}
	return ""
}

func (g *modelGen) genRestrictions(t, name string) []*openfgav1.RelationReference {
	var out []*openfgav1.RelationReference
	seen := map[string]bool{}
	add := func(r *openfgav1.RelationReference) {
		k := r.String()
		if !seen[k] {
			seen[k] = true
			out = append(out, r)
		}
	}
	n := 1 + g.r.Intn(3)
	for i := 0; i < n || len(out) == 0; i++ {
		k := g.r.Intn(100)
		switch {
		case k < 35:
			add(Ref("user", "", false, g.cond(25)))
		case k < 45:
			add(Ref("user", "", true, g.cond(25)))
			g.feat["wildcard"] = true
		case k < 70:
			// userset of a group relation
			if len(g.rels["group"]) > 0 {
				add(Ref("group", g.rels["group"][g.r.Intn(len(g.rels["group"]))], false, g.cond(25)))
				g.feat["userset"] = true
			}
		case k < 85:
			// userset of any relation (possibly itself: recursive userset)
			tt := []string{"group", "folder", "doc"}[g.r.Intn(3)]
			if g.r.Intn(2) == 0 {
				tt = t
			}
			names := g.rels[tt]
			if len(names) > 0 {
				rn := names[g.r.Intn(len(names))]
				if tt == t && g.r.Intn(2) == 0 {
					rn = name
				}
				if tt == t && rn == name {
					g.feat["recursive-userset"] = true
				}
				add(Ref(tt, rn, false, g.cond(20)))
				g.feat["userset"] = true
			}
		case k < 93:
			// same restriction with and without condition
			c := g.cond(100)
			add(Ref("user", "", false, ""))
			if c != "" {
				add(Ref("user", "", false, c))
			}
		default:
			tt := []string{"group", "folder"}[g.r.Intn(2)]
			add(Ref(tt, "", false, g.cond(15)))
			if g.r.Intn(3) == 0 {
				add(Ref(tt, "", true, g.cond(15)))
			}
		}
	}
	return out
}

// stored condition contexts for tuples
func (g *modelGen) storedCtx(cond string) *structpb.Struct {
	if cond == "" {
		return nil
	}
	switch g.r.Intn(6) {
	case 0, 1:
		return nil // rely on the request context entirely
	case 2:
		return mustStruct(map[string]any{"x": 3})
	case 3:
		return mustStruct(map[string]any{"x": 7, "s": "ok", "b": true})
	case 4:
		return mustStruct(map[string]any{"x": 500, "s": "no", "b": false})
	default:
		return mustStruct(map[string]any{"s": "ok"})
	}
}

func mustStruct(m map[string]any) *structpb.Struct {
	s, err := structpb.NewStruct(m)
	if err != nil {
		panic(err)
	}
	return s
}

// only parameters declared by the condition may be stored with a tuple (Write validation rejects others)
func (g *modelGen) trimCtx(model *openfgav1.AuthorizationModel, cond string, s *structpb.Struct) *structpb.Struct {
	if s == nil {
		return nil
	}
	c := model.GetConditions()[cond]
	out := &structpb.Struct{Fields: map[string]*structpb.Value{}}
	for k, v := range s.GetFields() {
		if _, ok := c.GetParameters()[k]; ok {
			out.Fields[k] = v
		}
	}
	if len(out.Fields) == 0 {
		return nil
	}
	return out
}

func (g *modelGen) genContexts() []*structpb.Struct {
	out := []*structpb.Struct{nil}
	if len(g.conds) == 0 {
		return out
	}
	all := []*structpb.Struct{
		mustStruct(map[string]any{"x": 7, "s": "ok", "b": true}),    // satisfies every template
		mustStruct(map[string]any{"x": 50, "s": "no", "b": false}),  // falsifies every template
		mustStruct(map[string]any{"x": 7}),                          // omits s, b
		mustStruct(map[string]any{"s": "ok", "b": true}),            // omits x
		mustStruct(map[string]any{"x": true, "s": 5, "b": "zzz"}),   // mistyped everywhere
		mustStruct(map[string]any{"x": 200, "s": "ok", "b": false}), // mixed outcomes
	}
	perm := g.r.Perm(len(all))
	n := 2 + g.r.Intn(2)
	for i := 0; i < n; i++ {
		out = append(out, all[perm[i]])
	}
	return out
}

func (g *modelGen) genTuples(model *openfgav1.AuthorizationModel) []*openfgav1.TupleKey {
	type key struct{ o, r, u string }
	seen := map[key]bool{}
	var out []*openfgav1.TupleKey
	add := func(o, rel, u, cond string, ctx *structpb.Struct) {
		k := key{o, rel, u}
		if seen[k] || u == o+"#"+rel {
			return
		}
		seen[k] = true
		tk := &openfgav1.TupleKey{Object: o, Relation: rel, User: u}
		if cond != "" {
			tk.Condition = &openfgav1.RelationshipCondition{Name: cond, Context: g.trimCtx(model, cond, ctx)}
		}
		out = append(out, tk)
	}
	anyUser := func() string {
		switch g.r.Intn(10) {
		case 0:
			return "user:*"
		case 1, 2:
			t := []string{"group", "folder", "doc"}[g.r.Intn(3)]
			if len(g.rels[t]) == 0 {
				return "user:" + g.pick("user")
			}
			return t + ":" + g.pick(t) + "#" + g.rels[t][g.r.Intn(len(g.rels[t]))]
		case 3:
			t := []string{"group", "folder"}[g.r.Intn(2)]
			return t + ":" + g.pick(t)
		}
		return "user:" + g.pick("user")
	}
	total := 4 + g.r.Intn(28)
	if g.r.Intn(4) == 0 {
		total = 25 + g.r.Intn(25)
	}
	if g.r.Intn(12) == 0 {
		total = g.r.Intn(3)
	}
	if g.wide {
		total = total*2 + 10 + g.r.Intn(30)
	}
	var slots [][2]string // (type, relation) with direct assignment
	for _, td := range model.GetTypeDefinitions() {
		for rn := range td.GetRelations() {
			if len(td.GetMetadata().GetRelations()[rn].GetDirectlyRelatedUserTypes()) > 0 {
				slots = append(slots, [2]string{td.GetType(), rn})
			}
		}
	}
	sort.Slice(slots, func(i, j int) bool { return slots[i][0]+slots[i][1] < slots[j][0]+slots[j][1] })
	if len(slots) == 0 {
		return nil
	}
	for i := 0; i < total; i++ {
		s := slots[g.r.Intn(len(slots))]
		t, rn := s[0], s[1]
		o := t + ":" + g.pick(t)
		restr := typeDef(model, t).GetMetadata().GetRelations()[rn].GetDirectlyRelatedUserTypes()
		if g.r.Intn(100) < 82 {
			rr := restr[g.r.Intn(len(restr))]
			var u string
			switch {
			case rr.GetWildcard() != nil:
				u = rr.GetType() + ":*"
			case rr.GetRelation() != "":
				u = rr.GetType() + ":" + g.pick(rr.GetType()) + "#" + rr.GetRelation()
			default:
				u = rr.GetType() + ":" + g.pick(rr.GetType())
			}
			cond := rr.GetCondition()
			if len(g.conds) > 0 && g.r.Intn(12) == 0 {
				// wrong condition / missing condition: invalid for the model (left-over)
				if cond == "" {
					cond = g.conds[g.r.Intn(len(g.conds))]
				} else {
					cond = ""
				}
				g.feat["leftover"] = true
			}
			if g.gone != "" && g.r.Intn(10) == 0 {
				cond = g.gone // a condition the model under test does not define any more
				g.feat["leftover"], g.feat["leftover-gone-condition"] = true, true
			}
			add(o, rn, u, cond, g.storedCtx(cond))
		} else {
			g.feat["leftover"] = true
			cond := ""
			if len(g.conds) > 0 && g.r.Intn(4) == 0 {
				cond = g.conds[g.r.Intn(len(g.conds))]
			}
			if g.gone != "" && g.r.Intn(4) == 0 {
				cond = g.gone
				g.feat["leftover-gone-condition"] = true
			}
			add(o, rn, anyUser(), cond, g.storedCtx(cond))
		}
	}
	return out
}

func typeDef(m *openfgav1.AuthorizationModel, t string) *openfgav1.TypeDefinition {
	for _, td := range m.GetTypeDefinitions() {
		if td.GetType() == t {
			return td
		}
	}
	return nil
}

// Subjects returns the request subjects for a case: every user object, typed wildcards, and the
// usersets that occur in the data or are definable in the model (bounded sample of the latter).
func Subjects(r *rand.Rand, c *Case, maxUsersets int) []string {
	out := []string{}
	for _, id := range c.IDsOf("user") {
		out = append(out, "user:"+id)
	}
	out = append(out, "user:*")
	us := map[string]bool{}
	for _, tk := range c.Tuples {
		if strings.Contains(tk.GetUser(), "#") {
			us[tk.GetUser()] = true
		}
	}
	var defin []string
	for _, td := range c.Model.GetTypeDefinitions() {
		for rn := range td.GetRelations() {
			for _, id := range c.IDsOf(td.GetType()) {
				defin = append(defin, fmt.Sprintf("%s:%s#%s", td.GetType(), id, rn))
			}
		}
	}
	sort.Strings(defin)
	r.Shuffle(len(defin), func(i, j int) { defin[i], defin[j] = defin[j], defin[i] })
	var fromData []string
	for u := range us {
		fromData = append(fromData, u)
	}
	sort.Strings(fromData)
	r.Shuffle(len(fromData), func(i, j int) { fromData[i], fromData[j] = fromData[j], fromData[i] })
	n := 0
	for _, u := range fromData {
		if n >= (maxUsersets+1)/2 {
			break
		}
		out = append(out, u)
		n++
	}
	for _, u := range defin {
		if n >= maxUsersets {
			break
		}
		if !us[u] || !contains(out, u) {
			out = append(out, u)
			n++
		}
	}
	// occasionally a non-user object and a typed wildcard of another type as subject
	hasGroup := typeDef(c.Model, "group") != nil
	if r.Intn(3) == 0 && hasGroup {
		out = append(out, "group:g1")
	}
	if r.Intn(4) == 0 && hasGroup {
		out = append(out, "group:*")
	}
	return dedupe(out)
}

func dedupe(xs []string) []string {
	seen := map[string]bool{}
	var out []string
	for _, x := range xs {
		if !seen[x] {
			seen[x] = true
			out = append(out, x)
		}
	}
	return out
}

// Objects returns the request objects of a type: the vocabulary ids plus one id that never occurs in data.
func Objects(typ string) []string {
	var out []string
	for _, id := range IDs(typ) {
		out = append(out, typ+":"+id)
	}
	return append(out, typ+":zz")
}

// TupleString renders a tuple key.
func TupleString(tk *openfgav1.TupleKey) string {
	s := tk.GetObject() + "#" + tk.GetRelation() + "@" + tk.GetUser()
	if c := tk.GetCondition(); c != nil {
		s += " with " + c.GetName()
		if c.GetContext() != nil {
			b, _ := c.GetContext().MarshalJSON()
			s += " " + string(b)
		}
	}
	return s
}

// TupleStrings renders tuples.
func TupleStrings(tks []*openfgav1.TupleKey) []string {
	var out []string
	for _, tk := range tks {
		out = append(out, TupleString(tk))
	}
	return out
}

// CtxString renders a request context.
func CtxString(s *structpb.Struct) string {
	if s == nil {
		return "nil"
	}
	b, _ := s.MarshalJSON()
	return string(b)
}

// NewAlgebraCase generates a "set algebra" case: one object type (doc, 7 ids) with 3-5 directly
// assignable base relations ([user], [user:*] or both) filled densely and at different densities, and
// 2-4 derived relations whose rewrites are random n-ary (2-4 operands) unions / intersections /
// exclusions of depth <= 2 over the base relations and earlier derived ones. Operand result sets of
// different sizes, in every operand order, with wildcards on either side of an exclusion, are the
// point: they are rare under NewCase's sparse tuples.
func NewAlgebraCase(r *rand.Rand, name string) *Case {
	ids := map[string][]string{
		"user": {"a", "b", "c", "d"}, "doc": {"d1", "d2", "d3", "d4", "d5", "d6", "d7"},
		"group": {"g1"}, "folder": {"f1"}, "document": {"d1", "d2", "d3", "d4"},
	}
	feat := map[string]bool{"algebra": true}
	model := &openfgav1.AuthorizationModel{SchemaVersion: "1.1", Conditions: map[string]*openfgav1.Condition{}}
	perm := &openfgav1.AuthorizationModel{SchemaVersion: "1.1", Conditions: map[string]*openfgav1.Condition{}}
	model.TypeDefinitions = append(model.TypeDefinitions, &openfgav1.TypeDefinition{Type: "user"})
	perm.TypeDefinitions = append(perm.TypeDefinitions, &openfgav1.TypeDefinition{Type: "user"})
	td := &openfgav1.TypeDefinition{Type: "doc", Relations: map[string]*openfgav1.Userset{}, Metadata: &openfgav1.Metadata{Relations: map[string]*openfgav1.RelationMetadata{}}}
	nBase := 3 + r.Intn(3)
	var base []string
	wild := map[string]bool{}
	plain := map[string]bool{}
	for i := 0; i < nBase; i++ {
		rn := fmt.Sprintf("b%d", i+1)
		base = append(base, rn)
		var restr []*openfgav1.RelationReference
		switch r.Intn(6) {
		case 0:
			restr = []*openfgav1.RelationReference{Ref("user", "", true, "")}
			wild[rn] = true
		case 1, 2, 3:
			restr = []*openfgav1.RelationReference{Ref("user", "", false, ""), Ref("user", "", true, "")}
			wild[rn], plain[rn] = true, true
		default:
			restr = []*openfgav1.RelationReference{Ref("user", "", false, "")}
			plain[rn] = true
		}
		if wild[rn] {
			feat["wildcard"] = true
		}
		td.Relations[rn] = this()
		td.Metadata.Relations[rn] = &openfgav1.RelationMetadata{DirectlyRelatedUserTypes: restr}
	}
	avail := append([]string{}, base...)
	var expr func(depth int, self string) *openfgav1.Userset
	expr = func(depth int, self string) *openfgav1.Userset {
		if depth == 0 || r.Intn(100) < 35 {
			// derived relations are preferred as operands half of the time: chains of operators across
			// relations (an exclusion under a union under an intersection) are the point
			if len(avail) > nBase && r.Intn(2) == 0 {
				return computed(avail[nBase+r.Intn(len(avail)-nBase)])
			}
			return computed(avail[r.Intn(len(avail))])
		}
		operands := func(n int) []*openfgav1.Userset {
			var ch []*openfgav1.Userset
			seen := map[string]bool{}
			for tries := 0; len(ch) < n && tries < 12; tries++ {
				e := expr(depth-1, self)
				if k := e.String(); !seen[k] {
					seen[k] = true
					ch = append(ch, e)
				}
			}
			return ch
		}
		var ch []*openfgav1.Userset
		switch k := r.Intn(100); {
		case k < 30:
			if ch = operands(2 + r.Intn(3)); len(ch) >= 2 {
				feat["union"] = true
				return union(ch...)
			}
		case k < 70:
			if ch = operands(2 + r.Intn(3)); len(ch) >= 2 {
				feat["intersection"] = true
				if len(ch) > 2 {
					feat["nary-intersection"] = true
				}
				return intersection(ch...)
			}
		default:
			if ch = operands(2); len(ch) >= 2 {
				feat["exclusion"] = true
				return difference(ch[0], ch[1])
			}
		}
		return ch[0]
	}
	nDer := 3 + r.Intn(3)
	for i := 0; i < nDer; i++ {
		rn := fmt.Sprintf("t%d", i+1)
		td.Relations[rn] = expr(2, rn)
		td.Metadata.Relations[rn] = &openfgav1.RelationMetadata{}
		avail = append(avail, rn)
	}
	model.TypeDefinitions = append(model.TypeDefinitions, td)
	// half of the cases have a second type whose NAME EXTENDS the first one's ("document" / "doc") with the
	// same relations and the same object ids: lookups by type must not confuse them (prefix matching)
	twin := r.Intn(2) == 0
	if twin {
		feat["prefix-twin-type"] = true
		model.TypeDefinitions = append(model.TypeDefinitions, &openfgav1.TypeDefinition{Type: "document", Relations: td.Relations, Metadata: td.Metadata})
	}
	// permissive twin (same shape as NewCase's: every relation directly assignable to users and wildcards)
	ptd := &openfgav1.TypeDefinition{Type: "doc", Relations: map[string]*openfgav1.Userset{}, Metadata: &openfgav1.Metadata{Relations: map[string]*openfgav1.RelationMetadata{}}}
	for rn := range td.Relations {
		ptd.Relations[rn] = this()
		ptd.Metadata.Relations[rn] = &openfgav1.RelationMetadata{DirectlyRelatedUserTypes: []*openfgav1.RelationReference{Ref("user", "", false, ""), Ref("user", "", true, "")}}
	}
	perm.TypeDefinitions = append(perm.TypeDefinitions, ptd)
	if twin {
		perm.TypeDefinitions = append(perm.TypeDefinitions, &openfgav1.TypeDefinition{Type: "document", Relations: ptd.Relations, Metadata: ptd.Metadata})
	}
	c := &Case{Name: name, Model: model, Permissive: perm, Features: feat, IDs: ids, Contexts: []*structpb.Struct{nil}}
	for _, rn := range base {
		density := []int{15, 35, 60, 85}[r.Intn(4)]
		for _, d := range ids["doc"] {
			if wild[rn] && r.Intn(100) < density/3 {
				c.Tuples = append(c.Tuples, &openfgav1.TupleKey{Object: "doc:" + d, Relation: rn, User: "user:*"})
			}
			for _, u := range ids["user"] {
				if r.Intn(100) < density {
					// a few of these are invalid for wildcard-only relations: left-over tuples
					if !plain[rn] {
						if r.Intn(4) != 0 {
							continue
						}
						feat["leftover"] = true
					}
					c.Tuples = append(c.Tuples, &openfgav1.TupleKey{Object: "doc:" + d, Relation: rn, User: "user:" + u})
				}
			}
		}
	}
	if twin {
		// the twin type gets its own, different, sparse tuples on the same object ids
		for _, rn := range base {
			for _, d := range ids["document"] {
				for _, u := range ids["user"] {
					if plain[rn] && r.Intn(100) < 30 {
						c.Tuples = append(c.Tuples, &openfgav1.TupleKey{Object: "document:" + d, Relation: rn, User: "user:" + u})
					}
				}
			}
		}
	}
	r.Shuffle(len(c.Tuples), func(i, j int) { c.Tuples[i], c.Tuples[j] = c.Tuples[j], c.Tuples[i] })
	return c
}

// NewHierarchyCase generates the classic hierarchy shape: nested groups (group#member in member),
// a folder forest (parent: [folder]) whose viewer relation is inherited from the parent (recursive
// tuple-to-userset), documents in folders inheriting viewer (optionally minus blocked / plus editor),
// with seeded variations of each definition. Chains of 3-5 levels occur in most cases; they are what
// the engines' recursive strategies, tupleset reads and iterator caches are made for, and they are
// rare under NewCase's sparse 3-id universe.
func NewHierarchyCase(r *rand.Rand, name string) *Case {
	ids := wideIDs
	feat := map[string]bool{"hierarchy": true, "ttu": true, "recursive-ttu": true}
	td := func(t string) *openfgav1.TypeDefinition {
		return &openfgav1.TypeDefinition{Type: t, Relations: map[string]*openfgav1.Userset{}, Metadata: &openfgav1.Metadata{Relations: map[string]*openfgav1.RelationMetadata{}}}
	}
	def := func(d *openfgav1.TypeDefinition, rel string, rw *openfgav1.Userset, restr ...*openfgav1.RelationReference) {
		d.Relations[rel] = rw
		d.Metadata.Relations[rel] = &openfgav1.RelationMetadata{DirectlyRelatedUserTypes: restr}
	}
	group, folder, doc := td("group"), td("folder"), td("doc")
	// one case in three has conditional edges INSIDE the recursion (a conditional nested membership, a
	// conditional parent link), declared after the unconditioned form of the same restriction
	cond := ""
	if r.Intn(2) == 0 {
		cond = "c_int"
		feat["cond-restriction"], feat["cond-tupleset"] = true, true
	}
	nested := r.Intn(4) != 0
	if nested {
		gm := []*openfgav1.RelationReference{Ref("user", "", false, ""), Ref("group", "member", false, "")}
		if cond != "" {
			gm = append(gm, Ref("group", "member", false, cond))
		}
		def(group, "member", this(), gm...)
		feat["recursive-userset"] = true
	} else {
		def(group, "member", this(), Ref("user", "", false, ""))
	}
	fp := []*openfgav1.RelationReference{Ref("folder", "", false, "")}
	if cond != "" {
		fp = append(fp, Ref("folder", "", false, cond))
	}
	def(folder, "parent", this(), fp...)
	fv := []*openfgav1.RelationReference{Ref("user", "", false, "")}
	if r.Intn(3) != 0 {
		fv = append(fv, Ref("group", "member", false, ""))
		feat["userset"] = true
	}
	if r.Intn(5) == 0 {
		fv = append(fv, Ref("user", "", true, ""))
		feat["wildcard"] = true
	}
	switch r.Intn(5) {
	case 0:
		def(folder, "blocked", this(), Ref("user", "", false, ""))
		def(folder, "viewer", difference(union(this(), ttu("parent", "viewer")), computed("blocked")), fv...)
		feat["exclusion"] = true
	case 1:
		def(folder, "owner", this(), Ref("user", "", false, ""))
		def(folder, "viewer", union(this(), computed("owner"), ttu("parent", "viewer")), fv...)
		feat["computed"] = true
	default:
		def(folder, "viewer", union(this(), ttu("parent", "viewer")), fv...)
	}
	def(doc, "parent", this(), Ref("folder", "", false, ""))
	switch r.Intn(5) {
	case 0:
		def(doc, "viewer", ttu("parent", "viewer"))
	case 1:
		def(doc, "blocked", this(), Ref("user", "", false, ""), Ref("group", "member", false, ""))
		def(doc, "viewer", difference(ttu("parent", "viewer"), computed("blocked")))
		feat["exclusion"] = true
	case 2:
		def(doc, "editor", this(), Ref("user", "", false, ""))
		def(doc, "viewer", union(computed("editor"), ttu("parent", "viewer")))
		feat["computed"] = true
	case 3:
		def(doc, "editor", this(), Ref("user", "", false, ""), Ref("group", "member", false, ""))
		def(doc, "viewer", intersection(computed("editor"), ttu("parent", "viewer")))
		feat["intersection"] = true
	default:
		def(doc, "viewer", union(this(), ttu("parent", "viewer")), Ref("user", "", false, ""))
	}
	model := &openfgav1.AuthorizationModel{SchemaVersion: "1.1", Conditions: map[string]*openfgav1.Condition{},
		TypeDefinitions: []*openfgav1.TypeDefinition{{Type: "user"}, group, folder, doc}}
	perm := &openfgav1.AuthorizationModel{SchemaVersion: "1.1", Conditions: map[string]*openfgav1.Condition{}, TypeDefinitions: []*openfgav1.TypeDefinition{{Type: "user"}}}
	condOpts := []string{""}
	if cond != "" {
		for _, t := range condTemplates {
			if t.name == cond {
				model.Conditions[cond] = condProto(t)
				perm.Conditions[cond] = condProto(t)
			}
		}
		condOpts = append(condOpts, cond)
	}
	var all []*openfgav1.RelationReference
	for _, co := range condOpts {
		for _, t := range typeOrder {
			all = append(all, Ref(t, "", false, co), Ref(t, "", true, co))
		}
		for _, d := range []*openfgav1.TypeDefinition{group, folder, doc} {
			for rel := range d.Relations {
				all = append(all, Ref(d.Type, rel, false, co))
			}
		}
	}
	for _, d := range []*openfgav1.TypeDefinition{group, folder, doc} {
		p := td(d.Type)
		for rel := range d.Relations {
			def(p, rel, this(), all...)
		}
		perm.TypeDefinitions = append(perm.TypeDefinitions, p)
	}
	c := &Case{Name: name, Model: model, Permissive: perm, Features: feat, IDs: ids, Contexts: []*structpb.Struct{nil}}
	if cond != "" {
		c.CondNames = []string{cond}
		c.Contexts = append(c.Contexts, mustStruct(map[string]any{"x": 7}), mustStruct(map[string]any{"x": 50}))
	}
	seen := map[string]bool{}
	add := func(o, rel, u string) {
		k := o + "#" + rel + "@" + u
		if !seen[k] && u != o+"#"+rel {
			seen[k] = true
			tk := &openfgav1.TupleKey{Object: o, Relation: rel, User: u}
			// links of the recursion (nested membership, folder parent) are conditional half of the time
			if cond != "" && ((rel == "member" && strings.Contains(u, "#")) || (rel == "parent" && strings.HasPrefix(o, "folder:"))) && r.Intn(2) == 0 {
				tk.Condition = &openfgav1.RelationshipCondition{Name: cond}
				switch r.Intn(4) {
				case 0:
					tk.Condition.Context = mustStruct(map[string]any{"x": 3}) // holds whatever the request says
				case 1, 2:
					tk.Condition.Context = mustStruct(map[string]any{"x": 50}) // never holds
				}
			}
			c.Tuples = append(c.Tuples, tk)
		}
	}
	pick := func(t string) string { return t + ":" + ids[t][r.Intn(len(ids[t]))] }
	// folder forest: folder i has a parent among the earlier ones most of the time (chains), sometimes two
	fs := ids["folder"]
	for i := 1; i < len(fs); i++ {
		if r.Intn(5) != 0 {
			add("folder:"+fs[i], "parent", "folder:"+fs[r.Intn(i)])
		}
		if r.Intn(6) == 0 {
			add("folder:"+fs[i], "parent", "folder:"+fs[r.Intn(i)])
		}
	}
	if r.Intn(8) == 0 { // a parent cycle
		add("folder:"+fs[0], "parent", "folder:"+fs[len(fs)-1])
		feat["tuple-cycle"] = true
	}
	for _, d := range ids["doc"] {
		if r.Intn(6) != 0 {
			add("doc:"+d, "parent", pick("folder"))
		}
		if r.Intn(5) == 0 {
			add("doc:"+d, "parent", pick("folder"))
		}
	}
	gs := ids["group"]
	for i := range gs {
		for n := r.Intn(3); n > 0; n-- {
			add("group:"+gs[i], "member", pick("user"))
		}
		if nested && i+1 < len(gs) && r.Intn(5) != 0 {
			add("group:"+gs[i], "member", "group:"+gs[i+1]+"#member") // a chain g1 <- g2 <- g3 <- g4
		}
		if nested && i+2 < len(gs) && r.Intn(4) == 0 {
			add("group:"+gs[i], "member", "group:"+gs[i+2+r.Intn(len(gs)-i-2)]+"#member")
		}
	}
	if nested && r.Intn(6) == 0 {
		add("group:"+gs[len(gs)-1], "member", "group:"+gs[0]+"#member")
		feat["tuple-cycle"] = true
	}
	anyUser := func(d *openfgav1.TypeDefinition, rel string) string {
		rr := d.Metadata.Relations[rel].GetDirectlyRelatedUserTypes()
		x := rr[r.Intn(len(rr))]
		switch {
		case x.GetWildcard() != nil:
			return x.GetType() + ":*"
		case x.GetRelation() != "":
			return pick(x.GetType()) + "#" + x.GetRelation()
		}
		return pick(x.GetType())
	}
	for _, d := range []*openfgav1.TypeDefinition{folder, doc} {
		for rel := range d.Relations {
			if rel == "parent" || len(d.Metadata.Relations[rel].GetDirectlyRelatedUserTypes()) == 0 {
				continue
			}
			for n := 2 + r.Intn(5); n > 0; n-- {
				add(pick(d.Type), rel, anyUser(d, rel))
			}
		}
	}
	// a few left-over tuples that are invalid for the model
	for n := r.Intn(4); n > 0; n-- {
		add(pick("doc"), "viewer", pick("group"))
		feat["leftover"] = true
	}
	sort.Slice(c.Tuples, func(i, j int) bool { return TupleString(c.Tuples[i]) < TupleString(c.Tuples[j]) })
	r.Shuffle(len(c.Tuples), func(i, j int) { c.Tuples[i], c.Tuples[j] = c.Tuples[j], c.Tuples[i] })
	return c
}

// NewMutualCase generates mutually recursive usersets across two types (group.member: [user,
// folder#viewer]; folder.viewer: [user, group#member], optionally a derived relation on top) over a
// random bipartite userset graph with chains and cycles. No single-type recursion: the engines'
// recursive strategies do not apply, every userset is resolved by plain dispatch, and sub-problems met
// below a cycle cut are asked again at top level by other requests (what result caches must survive).
func NewMutualCase(r *rand.Rand, name string) *Case {
	ids := wideIDs
	feat := map[string]bool{"mutual-recursion": true, "userset": true}
	td := func(t string) *openfgav1.TypeDefinition {
		return &openfgav1.TypeDefinition{Type: t, Relations: map[string]*openfgav1.Userset{}, Metadata: &openfgav1.Metadata{Relations: map[string]*openfgav1.RelationMetadata{}}}
	}
	def := func(d *openfgav1.TypeDefinition, rel string, rw *openfgav1.Userset, restr ...*openfgav1.RelationReference) {
		d.Relations[rel] = rw
		d.Metadata.Relations[rel] = &openfgav1.RelationMetadata{DirectlyRelatedUserTypes: restr}
	}
	group, folder, doc := td("group"), td("folder"), td("doc")
	def(group, "member", this(), Ref("user", "", false, ""), Ref("folder", "viewer", false, ""))
	def(folder, "viewer", this(), Ref("user", "", false, ""), Ref("group", "member", false, ""))
	switch r.Intn(4) {
	case 0:
		def(folder, "blocked", this(), Ref("user", "", false, ""))
		def(folder, "editor", difference(computed("viewer"), computed("blocked")))
		feat["exclusion"] = true
	case 1:
		def(folder, "owner", this(), Ref("user", "", false, ""), Ref("group", "member", false, ""))
		def(folder, "editor", intersection(computed("viewer"), computed("owner")))
		feat["intersection"] = true
	}
	def(doc, "parent", this(), Ref("folder", "", false, ""))
	def(doc, "viewer", union(this(), ttu("parent", "viewer")), Ref("user", "", false, ""), Ref("group", "member", false, ""))
	model := &openfgav1.AuthorizationModel{SchemaVersion: "1.1", Conditions: map[string]*openfgav1.Condition{},
		TypeDefinitions: []*openfgav1.TypeDefinition{{Type: "user"}, group, folder, doc}}
	perm := &openfgav1.AuthorizationModel{SchemaVersion: "1.1", Conditions: map[string]*openfgav1.Condition{}, TypeDefinitions: []*openfgav1.TypeDefinition{{Type: "user"}}}
	var all []*openfgav1.RelationReference
	for _, t := range typeOrder {
		all = append(all, Ref(t, "", false, ""), Ref(t, "", true, ""))
	}
	for _, d := range []*openfgav1.TypeDefinition{group, folder, doc} {
		for rel := range d.Relations {
			all = append(all, Ref(d.Type, rel, false, ""))
		}
	}
	for _, d := range []*openfgav1.TypeDefinition{group, folder, doc} {
		p := td(d.Type)
		for rel := range d.Relations {
			def(p, rel, this(), all...)
		}
		perm.TypeDefinitions = append(perm.TypeDefinitions, p)
	}
	c := &Case{Name: name, Model: model, Permissive: perm, Features: feat, IDs: ids, Contexts: []*structpb.Struct{nil}}
	seen := map[string]bool{}
	add := func(o, rel, u string) {
		k := o + "#" + rel + "@" + u
		if !seen[k] {
			seen[k] = true
			c.Tuples = append(c.Tuples, &openfgav1.TupleKey{Object: o, Relation: rel, User: u})
		}
	}
	pick := func(t string) string { return t + ":" + ids[t][r.Intn(len(ids[t]))] }
	for _, g := range ids["group"] {
		for n := 1 + r.Intn(2); n > 0; n-- {
			add("group:"+g, "member", pick("folder")+"#viewer")
		}
	}
	for _, f := range ids["folder"] {
		for n := r.Intn(3); n > 0; n-- {
			add("folder:"+f, "viewer", pick("group")+"#member")
		}
	}
	for n := 2 + r.Intn(3); n > 0; n-- {
		if r.Intn(2) == 0 {
			add(pick("group"), "member", pick("user"))
		} else {
			add(pick("folder"), "viewer", pick("user"))
		}
	}
	for rel := range folder.Relations {
		if rel == "blocked" || rel == "owner" {
			for n := 1 + r.Intn(3); n > 0; n-- {
				add(pick("folder"), rel, pick("user"))
			}
		}
	}
	for _, d := range ids["doc"] {
		if r.Intn(2) == 0 {
			add("doc:"+d, "parent", pick("folder"))
		}
	}
	sort.Slice(c.Tuples, func(i, j int) bool { return TupleString(c.Tuples[i]) < TupleString(c.Tuples[j]) })
	r.Shuffle(len(c.Tuples), func(i, j int) { c.Tuples[i], c.Tuples[j] = c.Tuples[j], c.Tuples[i] })
	return c
}
