// Package drive builds real in-process OpenFGA servers in every configuration the checks need and
// wraps their RPC methods with panic capture. It also owns the strategy forcer (hook H1).
package drive

import (
	"bytes"
	"context"
	"encoding/hex"
	"errors"
	"fmt"
	"hash/fnv"
	"os"
	"path/filepath"
	"runtime"
	"runtime/debug"
	"strings"
	"sync"
	"sync/atomic"
	"time"

	openfgav1 "github.com/openfga/api/proto/openfga/v1"
	"github.com/pressly/goose/v3"
	"google.golang.org/grpc/codes"
	"google.golang.org/grpc/metadata"
	"google.golang.org/grpc/status"
	"google.golang.org/protobuf/types/known/structpb"

	"github.com/openfga/openfga/assets"
	"github.com/openfga/openfga/internal/verifhook"
	"github.com/openfga/openfga/pkg/logger"
	"github.com/openfga/openfga/pkg/server"
	"github.com/openfga/openfga/pkg/storage"
	"github.com/openfga/openfga/pkg/storage/memory"
	"github.com/openfga/openfga/pkg/storage/sqlcommon"
	"github.com/openfga/openfga/pkg/storage/sqlite"
	"github.com/openfga/openfga/pkg/typesystem"
)

// Cfg selects a server configuration. Zero values mean "server default".
type Cfg struct {
	Backend       string // "memory" (default) or "sqlite"
	Experimentals []string
	V2            bool   // weighted_graph_check
	LOEngine      string // "classic" (default), "optimized", "pipeline"
	AuthZen       bool

	QueryCache     bool
	CheckIterCache bool
	LOIterCache    bool
	SharedIter     bool
	Controller     bool
	QueryCacheTTL  time.Duration
	IterCacheTTL   time.Duration
	ControllerTTL  time.Duration
	IterCacheMax   uint32
	SharedIterTTL  time.Duration

	Breadth      uint32
	NodeLimit    uint32
	ReadsCheck   uint32
	ReadsLO      uint32
	ReadsLU      uint32
	Throttle     bool // dispatch throttling with threshold 1
	Chunk        int
	Buffer       int
	Procs        int
	LODeadline   time.Duration
	LUDeadline   time.Duration
	ReqTimeout   time.Duration
	LOMax        uint32
	LUMax        uint32
	CtxPropagate bool
	BatchConc    uint32
	BatchMax     uint32
	HorizonMin   int

	Cache  storage.InMemoryCache[any]                              // injected check cache (observing)
	WrapDS func(storage.OpenFGADatastore) storage.OpenFGADatastore // observing datastore
	Logger logger.Logger
	Extra  []server.OpenFGAServiceV1Option
}

// Name is a short label of the configuration for signatures.
func (c Cfg) Name() string {
	var p []string
	b := c.Backend
	if b == "" {
		b = "memory"
	}
	p = append(p, b)
	if c.V2 {
		p = append(p, "v2")
	} else {
		p = append(p, "v1")
	}
	lo := c.LOEngine
	if lo == "" {
		lo = "classic"
	}
	p = append(p, "lo="+lo)
	var caches []string
	for _, kv := range []struct {
		on bool
		n  string
	}{{c.QueryCache, "q"}, {c.CheckIterCache, "ci"}, {c.LOIterCache, "li"}, {c.SharedIter, "sh"}, {c.Controller, "cc"}} {
		if kv.on {
			caches = append(caches, kv.n)
		}
	}
	if len(caches) > 0 {
		p = append(p, "cache="+strings.Join(caches, "+"))
	}
	if c.Breadth != 0 {
		p = append(p, fmt.Sprintf("breadth=%d", c.Breadth))
	}
	if c.ReadsCheck != 0 {
		p = append(p, fmt.Sprintf("reads=%d", c.ReadsCheck))
	}
	if c.Throttle {
		p = append(p, "throttle")
	}
	if c.Chunk != 0 || c.Buffer != 0 || c.Procs != 0 {
		p = append(p, fmt.Sprintf("pipe=%d/%d/%d", c.Chunk, c.Buffer, c.Procs))
	}
	return strings.Join(p, ",")
}

// Srv is a running in-process server.
type Srv struct {
	S      *server.Server
	DS     storage.OpenFGADatastore // the raw backend (before WrapDS)
	Cfg    Cfg
	path   string
	shared bool // the datastore belongs to another Srv
}

// NewShared builds another server (different configuration) over the datastore of an existing one.
func NewShared(cfg Cfg, owner *Srv) (*Srv, error) {
	s, err := NewOn(cfg, noClose{owner.DS}, "")
	if err != nil {
		return nil, err
	}
	s.shared = true
	return s, nil
}

// noClose shields a shared datastore from Server.Close.
type noClose struct{ storage.OpenFGADatastore }

func (noClose) Close() {}

var sqliteSeq atomic.Int64

// Scratch returns the per-run scratch directory.
func Scratch() string {
	d := os.Getenv("VERIF_SCRATCH")
	if d == "" {
		d = filepath.Join(os.TempDir(), "verif-scratch")
		_ = os.MkdirAll(d, 0o755)
	}
	return d
}

var gooseMu sync.Mutex

// OpenSqlite creates a fresh migrated sqlite database file and opens the sqlite datastore on it.
func OpenSqlite() (storage.OpenFGADatastore, string, error) {
	dir := filepath.Join(Scratch(), fmt.Sprintf("sqlite-%d-%d", os.Getpid(), sqliteSeq.Add(1)))
	if err := os.MkdirAll(dir, 0o755); err != nil {
		return nil, "", err
	}
	path := filepath.Join(dir, "database.db")
	uri := fmt.Sprintf("file:%s?_pragma=journal_mode(WAL)&_pragma=busy_timeout(5000)&_pragma=synchronous(NORMAL)", path)
	gooseMu.Lock()
	goose.SetLogger(goose.NopLogger())
	db, err := goose.OpenDBWithDriver("sqlite", uri)
	if err == nil {
		goose.SetBaseFS(assets.EmbedMigrations)
		err = goose.Up(db, assets.SqliteMigrationDir)
		_ = db.Close()
	}
	gooseMu.Unlock()
	if err != nil {
		return nil, "", fmt.Errorf("sqlite migrate: %w", err)
	}
	ds, err := sqlite.New(uri, sqlcommon.NewConfig())
	if err != nil {
		return nil, "", err
	}
	return ds, path, nil
}

// New builds a server.
func New(cfg Cfg) (*Srv, error) {
	var ds storage.OpenFGADatastore
	var path string
	switch cfg.Backend {
	case "", "memory":
		ds = memory.New()
	case "sqlite":
		var err error
		ds, path, err = OpenSqlite()
		if err != nil {
			return nil, err
		}
	default:
		return nil, fmt.Errorf("unknown backend %q", cfg.Backend)
	}
	return NewOn(cfg, ds, path)
}

// NewOn builds a server over an existing datastore.
func NewOn(cfg Cfg, ds storage.OpenFGADatastore, path string) (*Srv, error) {
	used := ds
	if cfg.WrapDS != nil {
		used = cfg.WrapDS(ds)
	}
	exps := append([]string{}, cfg.Experimentals...)
	if cfg.V2 {
		exps = append(exps, "weighted_graph_check")
	}
	switch cfg.LOEngine {
	case "", "classic":
	case "optimized":
		exps = append(exps, "enable-list-objects-optimizations")
	case "pipeline":
		exps = append(exps, "pipeline_list_objects")
	default:
		return nil, fmt.Errorf("unknown list objects engine %q", cfg.LOEngine)
	}
	if cfg.AuthZen {
		exps = append(exps, "authzen")
	}
	opts := []server.OpenFGAServiceV1Option{
		server.WithDatastore(used),
		server.WithExperimentals(exps...),
		server.WithListObjectsPipelineEnabled(cfg.LOEngine == "pipeline"),
	}
	if cfg.Logger == nil && os.Getenv("VERIF_SERVER_LOG") != "" {
		cfg.Logger = logger.MustNewLogger("text", "error", "ISO8601")
	}
	if cfg.Logger != nil {
		opts = append(opts, server.WithLogger(cfg.Logger))
	}
	if cfg.QueryCache {
		ttl := cfg.QueryCacheTTL
		if ttl == 0 {
			ttl = time.Hour
		}
		opts = append(opts, server.WithCheckQueryCacheEnabled(true), server.WithCheckQueryCacheTTL(ttl))
	}
	if !cfg.QueryCache && cfg.QueryCacheTTL != 0 {
		// the setting exists independently of the cache being enabled (the cache controller reads it)
		opts = append(opts, server.WithCheckQueryCacheTTL(cfg.QueryCacheTTL))
	}
	if !cfg.CheckIterCache && cfg.IterCacheTTL != 0 {
		opts = append(opts, server.WithCheckIteratorCacheTTL(cfg.IterCacheTTL))
	}
	itTTL := cfg.IterCacheTTL
	if itTTL == 0 {
		itTTL = time.Hour
	}
	if cfg.CheckIterCache {
		opts = append(opts, server.WithCheckIteratorCacheEnabled(true), server.WithCheckIteratorCacheTTL(itTTL))
		if cfg.IterCacheMax != 0 {
			opts = append(opts, server.WithCheckIteratorCacheMaxResults(cfg.IterCacheMax))
		}
	}
	if cfg.LOIterCache {
		opts = append(opts, server.WithListObjectsIteratorCacheEnabled(true), server.WithListObjectsIteratorCacheTTL(itTTL))
		if cfg.IterCacheMax != 0 {
			opts = append(opts, server.WithListObjectsIteratorCacheMaxResults(cfg.IterCacheMax))
		}
	}
	if cfg.SharedIter {
		opts = append(opts, server.WithSharedIteratorEnabled(true))
		if cfg.SharedIterTTL != 0 {
			opts = append(opts, server.WithSharedIteratorTTL(cfg.SharedIterTTL))
		}
	}
	if cfg.Controller {
		ttl := cfg.ControllerTTL
		if ttl == 0 {
			ttl = time.Millisecond
		}
		opts = append(opts, server.WithCacheControllerEnabled(true), server.WithCacheControllerTTL(ttl))
	}
	if cfg.QueryCache || cfg.CheckIterCache || cfg.LOIterCache {
		opts = append(opts, server.WithCacheTTLJitterPercentage(0))
	}
	if cfg.Cache != nil {
		opts = append(opts, server.WithCheckCache(cfg.Cache))
	}
	if cfg.Breadth != 0 {
		opts = append(opts, server.WithResolveNodeBreadthLimit(cfg.Breadth))
	}
	if cfg.NodeLimit != 0 {
		opts = append(opts, server.WithResolveNodeLimit(cfg.NodeLimit))
	}
	if cfg.ReadsCheck != 0 {
		opts = append(opts, server.WithMaxConcurrentReadsForCheck(cfg.ReadsCheck))
	}
	if cfg.ReadsLO != 0 {
		opts = append(opts, server.WithMaxConcurrentReadsForListObjects(cfg.ReadsLO))
	}
	if cfg.ReadsLU != 0 {
		opts = append(opts, server.WithMaxConcurrentReadsForListUsers(cfg.ReadsLU))
	}
	if cfg.Throttle {
		opts = append(opts,
			server.WithDispatchThrottlingCheckResolverEnabled(true),
			server.WithDispatchThrottlingCheckResolverFrequency(time.Millisecond),
			server.WithDispatchThrottlingCheckResolverThreshold(1),
			server.WithDispatchThrottlingCheckResolverMaxThreshold(1),
			server.WithListObjectsDispatchThrottlingEnabled(true),
			server.WithListObjectsDispatchThrottlingFrequency(time.Millisecond),
			server.WithListObjectsDispatchThrottlingThreshold(1),
			server.WithListObjectsDispatchThrottlingMaxThreshold(1),
		)
	}
	if cfg.Chunk != 0 {
		opts = append(opts, server.WithListObjectsChunkSize(cfg.Chunk))
	}
	if cfg.Buffer != 0 {
		v := cfg.Buffer
		if v < 0 {
			v = 0 // negative means "explicitly unbuffered"
		}
		opts = append(opts, server.WithListObjectsBufferCapacity(v))
	}
	if cfg.Procs != 0 {
		opts = append(opts, server.WithListObjectsNumProcs(cfg.Procs))
	}
	// Deadlines: semantic monitors must never mistake a deadline-truncated answer on a loaded machine
	// for a wrong one, so unless a check asks for a specific deadline the server gets generous ones.
	lod, lud, rqt := cfg.LODeadline, cfg.LUDeadline, cfg.ReqTimeout
	if lod == 0 {
		lod = 40 * time.Second
	}
	if lud == 0 {
		lud = 40 * time.Second
	}
	if rqt == 0 {
		rqt = 40 * time.Second
	}
	opts = append(opts, server.WithListObjectsDeadline(lod), server.WithListUsersDeadline(lud), server.WithRequestTimeout(rqt))
	if cfg.LOMax != 0 {
		opts = append(opts, server.WithListObjectsMaxResults(cfg.LOMax))
	}
	if cfg.LUMax != 0 {
		opts = append(opts, server.WithListUsersMaxResults(cfg.LUMax))
	}
	if cfg.CtxPropagate {
		opts = append(opts, server.WithContextPropagationToDatastore(true))
	}
	if cfg.BatchConc != 0 {
		opts = append(opts, server.WithMaxConcurrentChecksPerBatchCheck(cfg.BatchConc))
	}
	if cfg.BatchMax != 0 {
		opts = append(opts, server.WithMaxChecksPerBatchCheck(cfg.BatchMax))
	}
	if cfg.HorizonMin != 0 {
		opts = append(opts, server.WithChangelogHorizonOffset(cfg.HorizonMin))
	}
	opts = append(opts, cfg.Extra...)
	s, err := server.NewServerWithOpts(opts...)
	if err != nil {
		ds.Close()
		return nil, err
	}
	return &Srv{S: s, DS: ds, Cfg: cfg, path: path}, nil
}

// Close shuts the server and datastore down and removes the sqlite file.
func (s *Srv) Close() {
	// Requests that were already answered leave background iterator drains behind; those register with the
	// shared resources' WaitGroup (cached iterators flushing), which Server.Close waits on — an Add racing
	// that Wait is a shutdown race of the server (recorded as an observation in DESIGN.md §8.2), not the
	// subject of any check: let the drains finish first (bounded).
	waitForDrains(3 * time.Second)
	s.S.Close() // also closes the datastore it was given (shared ones are shielded by noClose)
	if s.shared {
		return
	}
	if s.path != "" {
		_ = os.RemoveAll(filepath.Dir(s.path))
	}
}

// waitForDrains polls (up to d) until no goroutine is inside internal/iterator.Drain.
func waitForDrains(d time.Duration) {
	deadline := time.Now().Add(d)
	buf := make([]byte, 1<<22)
	for {
		n := runtime.Stack(buf, true)
		if !bytes.Contains(buf[:n], []byte("internal/iterator.Drain")) || time.Now().After(deadline) {
			return
		}
		time.Sleep(20 * time.Millisecond)
	}
}

// ---- outcome of a call ----

// Outcome is the result of an RPC call as seen by the monitors.
type Outcome struct {
	Allowed bool
	Err     error
	Code    string // "" on success; gRPC / OpenFGA error code name otherwise; "PANIC" for an escaped panic
	Panic   string
}

// OK reports a successful call.
func (o Outcome) OK() bool { return o.Err == nil }

func (o Outcome) String() string {
	if o.Err != nil {
		return "error(" + o.Code + "): " + truncate(ErrDetail(o.Err), 300)
	}
	if o.Allowed {
		return "allowed"
	}
	return "denied"
}

func truncate(s string, n int) string {
	if len(s) <= n {
		return s
	}
	return s[:n] + "…"
}

// ErrDetail renders an error together with the internal cause the server hides from clients.
func ErrDetail(err error) string {
	if err == nil {
		return ""
	}
	msg := err.Error()
	if in := errors.Unwrap(err); in != nil && in.Error() != msg {
		msg += " [internal: " + in.Error() + "]"
	}
	return msg
}

// PanicError is returned by Guard when the wrapped call panicked.
type PanicError struct {
	Value any
	Stack string
}

func (p *PanicError) Error() string { return fmt.Sprintf("PANIC: %v", p.Value) }

// Guard runs f, converting an escaped panic into a *PanicError.
func Guard(f func() error) (err error) {
	defer func() {
		if r := recover(); r != nil {
			err = &PanicError{Value: r, Stack: string(debug.Stack())}
		}
	}()
	return f()
}

// CodeOf names the error class of err.
func CodeOf(err error) string {
	if err == nil {
		return ""
	}
	var pe *PanicError
	if errors.As(err, &pe) {
		return "PANIC"
	}
	if st, ok := status.FromError(err); ok {
		c := st.Code()
		if c >= 1000 {
			return fmt.Sprintf("openfga_%d", int(c))
		}
		return c.String()
	}
	if errors.Is(err, context.DeadlineExceeded) {
		return codes.DeadlineExceeded.String()
	}
	if errors.Is(err, context.Canceled) {
		return codes.Canceled.String()
	}
	return "Unknown"
}

func outcome(allowed bool, err error) Outcome {
	o := Outcome{Allowed: allowed, Err: err, Code: CodeOf(err)}
	var pe *PanicError
	if errors.As(err, &pe) {
		o.Panic = pe.Stack
	}
	return o
}

// ---- RPC helpers ----

// CreateStore creates a store and returns its id.
func (s *Srv) CreateStore(name string) (string, error) {
	r, err := s.S.CreateStore(context.Background(), &openfgav1.CreateStoreRequest{Name: name})
	if err != nil {
		return "", err
	}
	return r.GetId(), nil
}

// WriteModel writes a model and returns its id.
func (s *Srv) WriteModel(store string, m *openfgav1.AuthorizationModel) (string, error) {
	var id string
	err := Guard(func() error {
		r, err := s.S.WriteAuthorizationModel(context.Background(), &openfgav1.WriteAuthorizationModelRequest{
			StoreId: store, SchemaVersion: typesystem.SchemaVersion1_1,
			TypeDefinitions: m.GetTypeDefinitions(), Conditions: m.GetConditions(),
		})
		if err != nil {
			return err
		}
		id = r.GetAuthorizationModelId()
		return nil
	})
	return id, err
}

// WriteTuples writes tuples under the given model in chunks.
func (s *Srv) WriteTuples(store, model string, tks []*openfgav1.TupleKey) error {
	for i := 0; i < len(tks); i += 40 {
		j := i + 40
		if j > len(tks) {
			j = len(tks)
		}
		err := Guard(func() error {
			_, err := s.S.Write(context.Background(), &openfgav1.WriteRequest{
				StoreId: store, AuthorizationModelId: model,
				Writes: &openfgav1.WriteRequestWrites{TupleKeys: tks[i:j]},
			})
			return err
		})
		if err != nil {
			return err
		}
	}
	return nil
}

// DeleteTuples deletes tuples.
func (s *Srv) DeleteTuples(store, model string, tks []*openfgav1.TupleKey) error {
	var dels []*openfgav1.TupleKeyWithoutCondition
	for _, tk := range tks {
		dels = append(dels, &openfgav1.TupleKeyWithoutCondition{Object: tk.GetObject(), Relation: tk.GetRelation(), User: tk.GetUser()})
	}
	return Guard(func() error {
		_, err := s.S.Write(context.Background(), &openfgav1.WriteRequest{
			StoreId: store, AuthorizationModelId: model,
			Deletes: &openfgav1.WriteRequestDeletes{TupleKeys: dels},
		})
		return err
	})
}

// Req is a query request.
type Req struct {
	Store, Model           string
	Object, Relation, User string
	Ctx                    *structpb.Struct
	Contextual             []*openfgav1.TupleKey
	HigherConsistency      bool
	StreamSendDelay        time.Duration // StreamedListObjects only: a slow client
	Deadline               time.Duration // client-side context deadline (0 = none)
	Context                context.Context
}

func (r Req) ctx() (context.Context, context.CancelFunc) {
	base := r.Context
	if base == nil {
		base = context.Background()
	}
	if r.Deadline > 0 {
		return context.WithTimeout(base, r.Deadline)
	}
	return context.WithCancel(base)
}

func (r Req) consistency() openfgav1.ConsistencyPreference {
	if r.HigherConsistency {
		return openfgav1.ConsistencyPreference_HIGHER_CONSISTENCY
	}
	return openfgav1.ConsistencyPreference_UNSPECIFIED
}

func (r Req) contextual() *openfgav1.ContextualTupleKeys {
	if len(r.Contextual) == 0 {
		return nil
	}
	return &openfgav1.ContextualTupleKeys{TupleKeys: r.Contextual}
}

// Check runs Server.Check.
func (s *Srv) Check(r Req) Outcome {
	ctx, cancel := r.ctx()
	defer cancel()
	var allowed bool
	err := Guard(func() error {
		resp, err := s.S.Check(ctx, &openfgav1.CheckRequest{
			StoreId: r.Store, AuthorizationModelId: r.Model,
			TupleKey:         &openfgav1.CheckRequestTupleKey{Object: r.Object, Relation: r.Relation, User: r.User},
			ContextualTuples: r.contextual(), Context: r.Ctx, Consistency: r.consistency(),
		})
		if err != nil {
			return err
		}
		allowed = resp.GetAllowed()
		return nil
	})
	return outcome(allowed, err)
}

// ListOutcome is the result of a list call.
type ListOutcome struct {
	Items []string
	Err   error
	Code  string
	Panic string
	// Hung: the request did not return within HangAfter (far beyond every server-side deadline the
	// harness configures); the call's goroutine is abandoned. Err is ErrHung. Never an answer to judge.
	Hung bool
}

// HangAfter is the per-request watchdog of ListObjects / StreamedListObjects (the harness's servers
// have list deadlines of at most 40 s). Its firing is a watchdog observation, not a verdict: callers
// count the request as inconclusive unless termination is their subject (C20, C21).
var HangAfter = 60 * time.Second

// ErrHung is the Err of a ListOutcome whose request was abandoned by the watchdog.
var ErrHung = errors.New("verif: request abandoned by the harness watchdog (did not return)")

var hangCount atomic.Int64

// HangCount is the number of list requests abandoned by the watchdog in this process.
func HangCount() int64 { return hangCount.Load() }

func hungOutcome() ListOutcome {
	hangCount.Add(1)
	return ListOutcome{Err: ErrHung, Code: "hung", Hung: true}
}

// hungShapes remembers (server, store, type, relation) of abandoned list requests: further requests
// for the same relation on the same server are not sent again (each would cost HangAfter and leak the
// goroutines of another request); they are reported as Hung too.
var hungShapes sync.Map

func (s *Srv) hangKey(r Req) string {
	return fmt.Sprintf("%p|%s|%s|%s", s, r.Store, r.Object, r.Relation)
}

func (s *Srv) watchedList(r Req, f func(Req) ListOutcome) ListOutcome {
	k := s.hangKey(r)
	if _, ok := hungShapes.Load(k); ok {
		return hungOutcome()
	}
	var out ListOutcome
	if !Watch(HangAfter, func() { out = f(r) }) {
		hungShapes.Store(k, true)
		return hungOutcome()
	}
	return out
}

func listOutcome(items []string, err error) ListOutcome {
	o := ListOutcome{Items: items, Err: err, Code: CodeOf(err)}
	var pe *PanicError
	if errors.As(err, &pe) {
		o.Panic = pe.Stack
	}
	return o
}

// ListObjects runs Server.ListObjects (Object field of r is the object *type*).
func (s *Srv) ListObjects(r Req) ListOutcome {
	return s.watchedList(r, s.listObjects)
}

func (s *Srv) listObjects(r Req) ListOutcome {
	ctx, cancel := r.ctx()
	defer cancel()
	var items []string
	err := Guard(func() error {
		resp, err := s.S.ListObjects(ctx, &openfgav1.ListObjectsRequest{
			StoreId: r.Store, AuthorizationModelId: r.Model, Type: r.Object, Relation: r.Relation, User: r.User,
			ContextualTuples: r.contextual(), Context: r.Ctx, Consistency: r.consistency(),
		})
		if err != nil {
			return err
		}
		items = resp.GetObjects()
		return nil
	})
	return listOutcome(items, err)
}

// ListUsers runs Server.ListUsers; filterType/filterRel is the user filter. Users are rendered as strings.
func (s *Srv) ListUsers(r Req, filterType, filterRel string) ListOutcome {
	ctx, cancel := r.ctx()
	defer cancel()
	var items []string
	ot, oid := splitObject(r.Object)
	err := Guard(func() error {
		resp, err := s.S.ListUsers(ctx, &openfgav1.ListUsersRequest{
			StoreId: r.Store, AuthorizationModelId: r.Model,
			Object: &openfgav1.Object{Type: ot, Id: oid}, Relation: r.Relation,
			UserFilters:      []*openfgav1.UserTypeFilter{{Type: filterType, Relation: filterRel}},
			ContextualTuples: r.Contextual, Context: r.Ctx, Consistency: r.consistency(),
		})
		if err != nil {
			return err
		}
		for _, u := range resp.GetUsers() {
			items = append(items, UserString(u))
		}
		return nil
	})
	return listOutcome(items, err)
}

// UserString renders a ListUsers user.
func UserString(u *openfgav1.User) string {
	switch v := u.GetUser().(type) {
	case *openfgav1.User_Object:
		return v.Object.GetType() + ":" + v.Object.GetId()
	case *openfgav1.User_Wildcard:
		return v.Wildcard.GetType() + ":*"
	case *openfgav1.User_Userset:
		return v.Userset.GetType() + ":" + v.Userset.GetId() + "#" + v.Userset.GetRelation()
	}
	return "?"
}

func splitObject(o string) (string, string) {
	i := strings.Index(o, ":")
	if i < 0 {
		return o, ""
	}
	return o[:i], o[i+1:]
}

// ---- strategy forcing (hook H1) ----

// Mode names a forcing policy for plan selection within one store.
//
//	""         no forcing: the production Thompson sampler decides
//	"default"  always the default strategy
//	"fast"     the non-default candidate (weight2 / recursive) whenever one is offered
//	"mixed:N"  a per-plan-key pseudo-random choice determined by N
type Mode string

var (
	forceMu    sync.RWMutex
	forceModes = map[string]Mode{} // store id -> mode
	forceCount sync.Map            // "store|name" -> *atomic.Int64
	forceOnce  sync.Once
)

// keyStrings decodes the length-prefixed strings of a hex-rendered plan key.
func keyStrings(hexKey string) []string {
	b, err := hex.DecodeString(hexKey)
	if err != nil {
		return nil
	}
	var out []string
	for i := 0; i < len(b); {
		if b[i] != 4 { // tagString
			break
		}
		i++
		var n, shift uint64
		for i < len(b) {
			c := b[i]
			i++
			n |= uint64(c&0x7f) << shift
			if c < 0x80 {
				break
			}
			shift += 7
		}
		if i+int(n) > len(b) {
			break
		}
		out = append(out, string(b[i:i+int(n)]))
		i += int(n)
	}
	return out
}

// ForceStore sets the forcing mode for a store (installing the forcer on first use).
func ForceStore(store string, m Mode) {
	forceOnce.Do(func() {
		verifhook.SetPlanForcer(func(key string, candidates []string) string {
			parts := keyStrings(strings.TrimSuffix(strings.TrimPrefix(key, "{"), "}"))
			forceMu.RLock()
			var mode Mode
			store := ""
			for _, p := range parts {
				if mm, ok := forceModes[p]; ok {
					mode, store = mm, p
					break
				}
			}
			forceMu.RUnlock()
			if mode == "" {
				return ""
			}
			choice := ""
			switch {
			case mode == "default":
				choice = "default"
			case mode == "fast":
				choice = "default"
				for _, c := range candidates {
					if c != "default" {
						choice = c
					}
				}
			case strings.HasPrefix(string(mode), "mixed:"):
				h := fnv.New64a()
				h.Write([]byte(key))
				h.Write([]byte(mode))
				choice = candidates[int(h.Sum64()%uint64(len(candidates)))]
			}
			k := store + "|" + choice
			v, _ := forceCount.LoadOrStore(k, new(atomic.Int64))
			v.(*atomic.Int64).Add(1)
			return choice
		})
	})
	forceMu.Lock()
	if m == "" {
		delete(forceModes, store)
	} else {
		forceModes[store] = m
	}
	forceMu.Unlock()
}

// ForcedCounts returns how often each strategy name was forced (summed over stores) since start.
func ForcedCounts() map[string]int64 {
	out := map[string]int64{}
	forceCount.Range(func(k, v any) bool {
		name := k.(string)[strings.Index(k.(string), "|")+1:]
		out[name] += v.(*atomic.Int64).Load()
		return true
	})
	return out
}

// ---- streamed list objects ----

type loStream struct {
	ctx   context.Context
	mu    sync.Mutex
	items []string
	delay time.Duration // a slow client: every Send takes this long
}

func (s *loStream) Send(r *openfgav1.StreamedListObjectsResponse) error {
	// like a real gRPC server stream: once the client's context is done (it cancelled or its deadline
	// passed) sending fails — the handler must then wind down without leaving goroutines behind
	if s.delay > 0 {
		select {
		case <-time.After(s.delay):
		case <-s.ctx.Done():
		}
	}
	if err := s.ctx.Err(); err != nil {
		return status.FromContextError(err).Err()
	}
	s.mu.Lock()
	s.items = append(s.items, r.GetObject())
	s.mu.Unlock()
	return nil
}
func (s *loStream) SetHeader(metadata.MD) error  { return nil }
func (s *loStream) SendHeader(metadata.MD) error { return nil }
func (s *loStream) SetTrailer(metadata.MD)       {}
func (s *loStream) Context() context.Context     { return s.ctx }
func (s *loStream) SendMsg(m any) error          { return nil }
func (s *loStream) RecvMsg(m any) error          { return nil }

// StreamedListObjects runs Server.StreamedListObjects with a collecting stream.
func (s *Srv) StreamedListObjects(r Req) ListOutcome {
	return s.watchedList(r, s.streamedListObjects)
}

func (s *Srv) streamedListObjects(r Req) ListOutcome {
	ctx, cancel := r.ctx()
	defer cancel()
	st := &loStream{ctx: ctx, delay: r.StreamSendDelay}
	err := Guard(func() error {
		return s.S.StreamedListObjects(&openfgav1.StreamedListObjectsRequest{
			StoreId: r.Store, AuthorizationModelId: r.Model, Type: r.Object, Relation: r.Relation, User: r.User,
			ContextualTuples: r.contextual(), Context: r.Ctx, Consistency: r.consistency(),
		}, st)
	})
	st.mu.Lock()
	defer st.mu.Unlock()
	return listOutcome(append([]string{}, st.items...), err)
}

// ---- batch check, expand, read ----

// BatchItem is one item of a BatchCheck request.
type BatchItem struct {
	ID                     string
	Object, Relation, User string
	Ctx                    *structpb.Struct
	Contextual             []*openfgav1.TupleKey
}

// BatchCheck runs Server.BatchCheck and returns one Outcome per correlation id present in the result.
func (s *Srv) BatchCheck(store, model string, items []BatchItem, higher bool) (map[string]Outcome, error) {
	req := &openfgav1.BatchCheckRequest{StoreId: store, AuthorizationModelId: model}
	if higher {
		req.Consistency = openfgav1.ConsistencyPreference_HIGHER_CONSISTENCY
	}
	for _, it := range items {
		bi := &openfgav1.BatchCheckItem{
			CorrelationId: it.ID,
			TupleKey:      &openfgav1.CheckRequestTupleKey{Object: it.Object, Relation: it.Relation, User: it.User},
			Context:       it.Ctx,
		}
		if len(it.Contextual) > 0 {
			bi.ContextualTuples = &openfgav1.ContextualTupleKeys{TupleKeys: it.Contextual}
		}
		req.Checks = append(req.Checks, bi)
	}
	out := map[string]Outcome{}
	err := Guard(func() error {
		resp, err := s.S.BatchCheck(context.Background(), req)
		if err != nil {
			return err
		}
		for id, r := range resp.GetResult() {
			switch v := r.GetCheckResult().(type) {
			case *openfgav1.BatchCheckSingleResult_Allowed:
				out[id] = Outcome{Allowed: v.Allowed}
			case *openfgav1.BatchCheckSingleResult_Error:
				e := status.Error(codes.Code(errCode(v.Error)), v.Error.GetMessage())
				out[id] = outcome(false, e)
			default:
				out[id] = outcome(false, errors.New("empty batch result"))
			}
		}
		return nil
	})
	return out, err
}

func errCode(e *openfgav1.CheckError) int32 {
	switch c := e.GetCode().(type) {
	case *openfgav1.CheckError_InputError:
		return int32(c.InputError)
	case *openfgav1.CheckError_InternalError:
		return int32(c.InternalError)
	}
	return int32(codes.Unknown)
}

// Expand runs Server.Expand.
func (s *Srv) Expand(r Req) (*openfgav1.UsersetTree, error) {
	var tree *openfgav1.UsersetTree
	err := Guard(func() error {
		resp, err := s.S.Expand(context.Background(), &openfgav1.ExpandRequest{
			StoreId: r.Store, AuthorizationModelId: r.Model,
			TupleKey:         &openfgav1.ExpandRequestTupleKey{Object: r.Object, Relation: r.Relation},
			ContextualTuples: r.contextual(), Consistency: r.consistency(),
		})
		if err != nil {
			return err
		}
		tree = resp.GetTree()
		return nil
	})
	return tree, err
}

// ReadAll pages through Server.Read and returns every tuple key of the store.
func (s *Srv) ReadAll(store string) ([]*openfgav1.TupleKey, error) {
	var out []*openfgav1.TupleKey
	token := ""
	for i := 0; i < 10000; i++ {
		var resp *openfgav1.ReadResponse
		err := Guard(func() error {
			var err error
			resp, err = s.S.Read(context.Background(), &openfgav1.ReadRequest{StoreId: store, ContinuationToken: token})
			return err
		})
		if err != nil {
			return nil, err
		}
		for _, t := range resp.GetTuples() {
			out = append(out, t.GetKey())
		}
		token = resp.GetContinuationToken()
		if token == "" {
			return out, nil
		}
	}
	return nil, errors.New("ReadAll: too many pages")
}

// Watch runs f in a goroutine and waits at most d for it. It returns false when f has not returned
// in time (the goroutine is abandoned): callers treat that as "hung", never as an answer.
func Watch(d time.Duration, f func()) bool {
	done := make(chan struct{})
	go func() {
		defer close(done)
		f()
	}()
	t := time.NewTimer(d)
	defer t.Stop()
	select {
	case <-done:
		return true
	case <-t.C:
		return false
	}
}
