package drive

import (
	"context"
	"sync"
	"sync/atomic"
	"time"

	openfgav1 "github.com/openfga/api/proto/openfga/v1"

	"github.com/openfga/openfga/pkg/storage"
)

// ObsDS wraps a datastore: it counts opened and stopped tuple iterators, can add latency to every
// read and to every iterator step, and can fail or cancel at the n-th iterator step.
type ObsDS struct {
	storage.OpenFGADatastore
	Opened, Stopped atomic.Int64
	Reads           atomic.Int64
	Nexts           atomic.Int64
	ReadLatency     atomic.Int64 // nanoseconds added to every read call
	NextLatency     atomic.Int64 // nanoseconds added to every iterator Next
	mu              sync.Mutex
	open            map[*obsIter]string
	faults          sync.Map // store id -> *readFault
	Faulted         atomic.Int64
}

type readFault struct {
	rels map[string]bool
	err  error
}

// FailReads makes every read of one of the given relations in store fail with err (nil rels: clear).
// Per store, so that cases running in parallel on one server do not disturb each other.
func (o *ObsDS) FailReads(store string, rels []string, err error) {
	if rels == nil {
		o.faults.Delete(store)
		return
	}
	f := &readFault{rels: map[string]bool{}, err: err}
	for _, r := range rels {
		f.rels[r] = true
	}
	o.faults.Store(store, f)
}

func (o *ObsDS) fault(store, relation string) error {
	if v, ok := o.faults.Load(store); ok {
		if f := v.(*readFault); f.rels[relation] {
			o.Faulted.Add(1)
			return f.err
		}
	}
	return nil
}

// NewObsDS wraps ds.
func NewObsDS(ds storage.OpenFGADatastore) *ObsDS {
	return &ObsDS{OpenFGADatastore: ds, open: map[*obsIter]string{}}
}

// OpenIterators returns the kinds of iterators that were opened and not stopped.
func (o *ObsDS) OpenIterators() []string {
	o.mu.Lock()
	defer o.mu.Unlock()
	var out []string
	for _, k := range o.open {
		out = append(out, k)
	}
	return out
}

type obsIter struct {
	storage.TupleIterator
	o    *ObsDS
	once sync.Once
}

func (o *ObsDS) wrap(kind string, it storage.TupleIterator, err error) (storage.TupleIterator, error) {
	if err != nil {
		return it, err
	}
	w := &obsIter{TupleIterator: it, o: o}
	o.Opened.Add(1)
	o.mu.Lock()
	o.open[w] = kind
	o.mu.Unlock()
	return w, nil
}

func (i *obsIter) Next(ctx context.Context) (*openfgav1.Tuple, error) {
	i.o.Nexts.Add(1)
	if d := i.o.NextLatency.Load(); d > 0 {
		select {
		case <-time.After(time.Duration(d)):
		case <-ctx.Done():
			return nil, ctx.Err()
		}
	}
	return i.TupleIterator.Next(ctx)
}

func (i *obsIter) Stop() {
	i.once.Do(func() {
		i.o.Stopped.Add(1)
		i.o.mu.Lock()
		delete(i.o.open, i)
		i.o.mu.Unlock()
	})
	i.TupleIterator.Stop()
}

func (o *ObsDS) delay(ctx context.Context) error {
	o.Reads.Add(1)
	if d := o.ReadLatency.Load(); d > 0 {
		select {
		case <-time.After(time.Duration(d)):
		case <-ctx.Done():
			return ctx.Err()
		}
	}
	return nil
}

// Read implements storage.RelationshipTupleReader.
func (o *ObsDS) Read(ctx context.Context, store string, f storage.ReadFilter, opts storage.ReadOptions) (storage.TupleIterator, error) {
	if err := o.delay(ctx); err != nil {
		return nil, err
	}
	if err := o.fault(store, f.Relation); err != nil {
		return nil, err
	}
	it, err := o.OpenFGADatastore.Read(ctx, store, f, opts)
	return o.wrap("Read", it, err)
}

// ReadUsersetTuples implements storage.RelationshipTupleReader.
func (o *ObsDS) ReadUsersetTuples(ctx context.Context, store string, f storage.ReadUsersetTuplesFilter, opts storage.ReadUsersetTuplesOptions) (storage.TupleIterator, error) {
	if err := o.delay(ctx); err != nil {
		return nil, err
	}
	if err := o.fault(store, f.Relation); err != nil {
		return nil, err
	}
	it, err := o.OpenFGADatastore.ReadUsersetTuples(ctx, store, f, opts)
	return o.wrap("ReadUsersetTuples", it, err)
}

// ReadStartingWithUser implements storage.RelationshipTupleReader.
func (o *ObsDS) ReadStartingWithUser(ctx context.Context, store string, f storage.ReadStartingWithUserFilter, opts storage.ReadStartingWithUserOptions) (storage.TupleIterator, error) {
	if err := o.delay(ctx); err != nil {
		return nil, err
	}
	if err := o.fault(store, f.Relation); err != nil {
		return nil, err
	}
	it, err := o.OpenFGADatastore.ReadStartingWithUser(ctx, store, f, opts)
	return o.wrap("ReadStartingWithUser", it, err)
}

// ReadUserTuple implements storage.RelationshipTupleReader.
func (o *ObsDS) ReadUserTuple(ctx context.Context, store string, f storage.ReadUserTupleFilter, opts storage.ReadUserTupleOptions) (*openfgav1.Tuple, error) {
	if err := o.delay(ctx); err != nil {
		return nil, err
	}
	if err := o.fault(store, f.Relation); err != nil {
		return nil, err
	}
	return o.OpenFGADatastore.ReadUserTuple(ctx, store, f, opts)
}
