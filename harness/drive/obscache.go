package drive

import (
	"fmt"
	"sync"
	"sync/atomic"
	"time"

	"github.com/openfga/openfga/pkg/storage"
	"github.com/openfga/openfga/pkg/storage/cache/keys"
)

// ObsCache wraps the real in-memory cache (theine) and counts Get hits/misses, Sets and Deletes per
// cache entity type. The monitor state is updated with atomics only; it adds no ordering between
// the cache's own operations.
type ObsCache struct {
	inner storage.InMemoryCache[any]
	mu    sync.Mutex
	stats map[string]*int64
	gets  atomic.Int64
}

// NewObsCache builds an observing cache over a real LRU cache.
func NewObsCache() (*ObsCache, error) {
	c, err := storage.NewInMemoryLRUCache[any]()
	if err != nil {
		return nil, err
	}
	return &ObsCache{inner: c, stats: map[string]*int64{}}, nil
}

func entityType(v any) string {
	if ci, ok := v.(storage.CacheItem); ok {
		return ci.CacheEntityType()
	}
	return fmt.Sprintf("%T", v)
}

func (o *ObsCache) bump(name string) {
	o.mu.Lock()
	p := o.stats[name]
	if p == nil {
		p = new(int64)
		o.stats[name] = p
	}
	o.mu.Unlock()
	atomic.AddInt64(p, 1)
}

// Get implements storage.InMemoryCache.
func (o *ObsCache) Get(key keys.Key) any {
	v := o.inner.Get(key)
	o.gets.Add(1)
	if v == nil {
		o.bump("miss")
	} else {
		o.bump("hit:" + entityType(v))
	}
	return v
}

// Set implements storage.InMemoryCache.
func (o *ObsCache) Set(key keys.Key, value any, ttl time.Duration) {
	o.bump("set:" + entityType(value))
	o.inner.Set(key, value, ttl)
}

// Delete implements storage.InMemoryCache.
func (o *ObsCache) Delete(key keys.Key) {
	o.bump("delete")
	o.inner.Delete(key)
}

// Stop implements storage.InMemoryCache.
func (o *ObsCache) Stop() { o.inner.Stop() }

// Stats returns a snapshot of the counters.
func (o *ObsCache) Stats() map[string]int64 {
	o.mu.Lock()
	defer o.mu.Unlock()
	out := map[string]int64{}
	for k, p := range o.stats {
		out[k] = atomic.LoadInt64(p)
	}
	return out
}

// Gets returns the total number of Get calls so far.
func (o *ObsCache) Gets() int64 { return o.gets.Load() }
