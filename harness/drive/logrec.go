package drive

import (
	"context"
	"sync"

	"go.uber.org/zap"
	"go.uber.org/zap/zapcore"

	"github.com/openfga/openfga/pkg/logger"
)

// LogEntry is one captured warning/error log line.
type LogEntry struct {
	Level  string
	Msg    string
	Fields map[string]string
}

// LogRec is a logger.Logger that records Warn and Error lines keyed by their store_id field.
type LogRec struct {
	*logger.ZapLogger
	mu      sync.Mutex
	byStore map[string][]LogEntry
}

// NewLogRec returns a recording logger.
func NewLogRec() *LogRec {
	return &LogRec{ZapLogger: logger.NewNoopLogger(), byStore: map[string][]LogEntry{}}
}

func (l *LogRec) record(level, msg string, fields []zap.Field) {
	e := LogEntry{Level: level, Msg: msg, Fields: map[string]string{}}
	enc := zapcore.NewMapObjectEncoder()
	for _, f := range fields {
		f.AddTo(enc)
	}
	for k, v := range enc.Fields {
		switch x := v.(type) {
		case string:
			e.Fields[k] = x
		case error:
			e.Fields[k] = x.Error()
		default:
			e.Fields[k] = ""
		}
	}
	for _, f := range fields {
		if f.Type == zapcore.ErrorType {
			if err, ok := f.Interface.(error); ok && err != nil {
				e.Fields[f.Key] = err.Error()
			}
		}
	}
	l.mu.Lock()
	l.byStore[e.Fields["store_id"]] = append(l.byStore[e.Fields["store_id"]], e)
	l.mu.Unlock()
}

// Take returns and clears the entries recorded for a store.
func (l *LogRec) Take(store string) []LogEntry {
	l.mu.Lock()
	defer l.mu.Unlock()
	out := l.byStore[store]
	delete(l.byStore, store)
	return out
}

func (l *LogRec) Warn(msg string, f ...zap.Field)  { l.record("warn", msg, f) }
func (l *LogRec) Error(msg string, f ...zap.Field) { l.record("error", msg, f) }
func (l *LogRec) WarnWithContext(_ context.Context, msg string, f ...zap.Field) {
	l.record("warn", msg, f)
}
func (l *LogRec) ErrorWithContext(_ context.Context, msg string, f ...zap.Field) {
	l.record("error", msg, f)
}
func (l *LogRec) With(...zap.Field) logger.Logger { return l }
