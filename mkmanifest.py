#!/usr/bin/env python3
"""Generates MANIFEST.json from the table below (single source of truth for check registration)."""
import json, subprocess

PROPS = [json.loads(l)["id"] for l in open("/verif/properties.jsonl")]

# id -> dict(level, text, note, technique, design)
CHECKS = {}
NA = {}

def check(id, level, technique, text, note, design):
    CHECKS[id] = dict(level=level, technique=technique, text=text, note=note, design=design)

exec(open("/verif/manifest_table.py").read())

hooks_commits = subprocess.run(["git", "-C", "/repo", "log", "--format=%H %s", "--grep=^verif hooks:"],
                               capture_output=True, text=True).stdout.strip().splitlines()

m = {
    "version": 1,
    "setup_cmd": "./setup.sh",
    "hooks": {
        "guard": "verif",
        "enable": "go build -tags verif (harness module /verif/harness replaces github.com/openfga/openfga => /repo); "
                  "hook call sites are calls into internal/verifhook, whose functions are empty and inlined without the tag",
        "baseline_off_cmd": "cd /repo && go test -vet=off -count=1 -timeout 25m ./...",
        "source_commits": [c.split()[0] for c in hooks_commits],
        "add_only": True,
    },
    "engines": [{
        "name": "vcheck",
        "path": "/verif/harness",
        "serves_properties": sorted(CHECKS),
        "kind_free_text": "Go harness (runtime monitors, reference-model oracles, history checkers, race detector) "
                          "built against /repo's working tree with build tag verif; entry point ./run.sh <id> <tier>",
    }],
    "checks": [],
    "not_applicable": [],
    "notes": "All checks: ./run.sh <id> <quick|thorough>; exit 0 held / 1 VIOLATION / 2 harness error (inconclusive). "
             "VERIF_SEED selects the PRNG streams. Known findings: /verif/known_findings.json.",
}
for pid in PROPS:
    if pid in CHECKS:
        c = CHECKS[pid]
        m["checks"].append({
            "property_id": pid,
            "quick_cmd": f"./run.sh {pid} quick",
            "thorough_cmd": f"./run.sh {pid} thorough",
            "evidence_file": f"/verif/evidence/{pid}.json",
            "replay_cmd_template": f"./run.sh {pid} quick --replay {{path}}",
            "engine": "vcheck",
            "level_claimed": {"category": c["level"], "text": c["text"], "design_ref": c["design"]},
            "level_note": c["note"],
            "technique": c["technique"],
        })
    else:
        m["not_applicable"].append({"property_id": pid, "reason": NA.get(pid, "check not built yet (runtime monitor planned in DESIGN.md §5); not claimed")})
json.dump(m, open("/verif/MANIFEST.json", "w"), indent=1)
print("checks:", len(m["checks"]), "not_applicable:", len(m["not_applicable"]))
